"""C13 -- restricting the spectral grid never changes the values computed on it."""
import z3
from pyvc.unit import Unit, ObjSpec, Lemma, Bounded
from pyvc.engine import AbsObj
from pyvc.core import Arr, PyDict, PyList, Ref, to_int, to_real, is_sym, INT, REAL

UT = "taurex.util.util:"
from contracts import c05 as _c05       # compute_bin_edges is called by contract


class _NS:
    def __init__(self, **kw):
        self.__dict__.update(kw)


def _quiet(o):
    for nm in ('debug', 'info', 'warning', 'error', 'critical'):
        setattr(o, nm, lambda *a, **k: None)
    return o


# ------------------------------------------------------------------ clip_native_to_wngrid
def _clip_params(c):
    N, M = c.int('N'), c.int('M')
    return dict(native_grid=c.array('native', (N,)), wngrid=c.array('obs', (M,)))


def _clip_pre(c, v):
    return {'sizes': c.And(c.Len(v.native_grid) >= 0, c.Len(v.wngrid) >= 2)}


def _mid_width(c, g, M, i):
    """mid-point width of point i of grid g (compute_bin_edges): |e_{i+1} - e_i|"""
    def e(k):
        if not is_sym(k):
            if k == 0:
                return g[0] - (g[1] - g[0]) / 2
        return c.If(k == 0, g[0] - (g[1] - g[0]) / 2, c.If(k == M, g[M - 1] + (g[M - 1] - g[M - 2]) / 2, (g[k - 1] + g[k]) / 2)) \
            if c.mode != 'conc' else (g[0] - (g[1] - g[0]) / 2 if k == 0 else (g[M - 1] + (g[M - 1] - g[M - 2]) / 2 if k == M else (g[k - 1] + g[k]) / 2))
    return c.Abs(e(i + 1) - e(i))


def _clip_post(c, v0, v1, r):
    """the native points lying within [min(obs) - m, max(obs) + m], m = the largest mid-point width of the observation
    grid (whatever the order in which the observation points are listed), in their native order, nothing else"""
    g, o = v0.native_grid, v0.wngrid
    N, M = c.Len(g), c.Len(o)
    K = c.Len(r)
    if c.mode == 'conc':
        m = max(_mid_width(c, o, M, i) for i in range(M))
        lo, hi = min(o) - m, max(o) + m
        want = [x for x in g if lo <= x <= hi]
        return {'subsequence_in_range': len(r) == len(want) and all(abs(a - b) <= 1e-9 * max(1.0, abs(a)) for a, b in zip(r, want))}
    if c.mode == 'bmc':
        return {'length': c.And(K >= 0, K <= N)}
    Kc, sel, pos = c.last_select
    lo_w, hi_w, mw = c.fresh('omin', REAL), c.fresh('omax', REAL), c.fresh('wmax', REAL)
    is_min = c.And(c.Forall(0, M, lambda i: lo_w <= o[i]), c.Exists(0, M, lambda i: lo_w == o[i]))
    is_max = c.And(c.Forall(0, M, lambda i: hi_w >= o[i]), c.Exists(0, M, lambda i: hi_w == o[i]))
    is_mw = c.And(c.Forall(0, M, lambda i: mw >= _mid_width(c, o, M, i)), c.Exists(0, M, lambda i: mw == _mid_width(c, o, M, i)))
    inside = lambda x: z3.And(x >= lo_w - mw, x <= hi_w + mw)
    body = z3.And(K >= 0, K <= N,
                  c.Forall(0, K, lambda k: z3.And(0 <= sel(k), sel(k) < N, r[k] == g[sel(k)], inside(g[sel(k)]))),
                  c.ForallAdj(0, K - 1, lambda a, b: sel(a) < sel(b)),
                  c.Forall(0, N, lambda j: z3.Implies(inside(g[j]), z3.And(0 <= pos(j), pos(j) < K, sel(pos(j)) == j))))
    return {'subsequence_in_range': z3.ForAll([lo_w, hi_w, mw], z3.Implies(z3.And(is_min, is_max, is_mw), body))}


def _clip_native(c, p):
    import numpy as np
    from taurex.util.util import clip_native_to_wngrid
    return np.asarray(clip_native_to_wngrid(np.array(p['native_grid'], dtype=float), np.array(p['wngrid'], dtype=float))), p


def _clip_gen(rng):
    N, M = rng.randint(0, 12), rng.randint(2, 5)
    obs = sorted((rng.uniform(500, 3000) for _ in range(M)), reverse=rng.random() < 0.5)
    if rng.random() < 0.4:       # constant resolving power over more than an octave, listed by increasing wavelength
        obs = [3000.0 / (1.6 ** i) for i in range(M)]
    return dict(N=N, M=M, native=sorted(rng.uniform(100, 4000) for _ in range(N)), obs=obs)


CLIP = Unit('C13', UT + 'clip_native_to_wngrid', _clip_params, pre=_clip_pre, post=_clip_post, native=_clip_native, gen=_clip_gen,
            bounds=[dict(N=3, M=2)], result=lambda ex, st, v0: st.alloc(ex.c, ex.c.fresh_array('clipped', (ex.c.fresh('K'),))),
            short='clip_native_to_wngrid', timeout_ms=20000,
            doc='clip of the native grid to the observation range padded by the widest mid-point bin (compute_bin_edges by '
                'contract; boolean-mask selection: assumed model)')


# ------------------------------------------------------------------ Opacity.opacity: selection / interpolation onto the requested grid
OPA = 'taurex.opacity.opacity:Opacity.'


def _XS(c):
    return c.func('XSN', REAL, REAL, INT, REAL)          # cross-section at (T, P) on native point j


def _h_compute_opacity(ex, st, args, kwargs, node):
    """assumed contract of compute_opacity(T, P, filter) (C04): the cross-section at (T, P) on the native points whose
    indices are listed in `filter`, in that order"""
    c = ex.c
    me, T, P, filt = args
    F = st.get(filt)
    f = _XS(c)
    return st.alloc(c, Arr(F.shape, lambda ix: f(to_real(T), to_real(P), to_int(F.elem(ix))), 'real'))


def _op_params(c):
    N, W = c.int('N'), c.int('W')
    return dict(self=ObjSpec('Opacity', wavenumberGrid=c.array('native', (N,))), temperature=c.real('T'), pressure=c.real('P'),
                wngrid=c.array('req', (W,)))


def _op_pre(c, v):
    g = v.self.wavenumberGrid
    N = c.Len(g)
    return {'sizes': c.And(N >= 1, c.Len(v.wngrid) >= 1),
            'native_ascending': c.Forall2((0, N), (0, N), lambda i, j: c.Implies(i < j, lambda: c.Lt(g[i], g[j]))),
            'something_in_range': c.Exists(0, N, lambda j: c.And(c.Le(_amin(c, v.wngrid), g[j]), c.Le(g[j], _amax(c, v.wngrid))))}


def _amin(c, a):
    if c.mode == 'conc':
        return min(a)
    key = ('amin', id(a))
    if key not in c.uf:
        m = c.fresh('reqmin', REAL)
        c.uf[key] = m
        n = c.Len(a)
        c.assumed.append(z3.And(c.Forall(0, n, lambda i: m <= a[i]), c.Exists(0, n, lambda i: m == a[i])))
    return c.uf[key]


def _amax(c, a):
    if c.mode == 'conc':
        return max(a)
    key = ('amax', id(a))
    if key not in c.uf:
        m = c.fresh('reqmax', REAL)
        c.uf[key] = m
        n = c.Len(a)
        c.assumed.append(z3.And(c.Forall(0, n, lambda i: m >= a[i]), c.Exists(0, n, lambda i: m == a[i])))
    return c.uf[key]


def _op_post(c, v0, v1, r):
    """requested grid = the molecule's own native points inside [min, max] of the request, exactly: those cross-sections
    are returned unchanged.  Any other request: at each requested point the piecewise-linear function through the native
    points in range, held constant beyond the first / last of them (so between the two neighbouring native values)"""
    g, req = v0.self.wavenumberGrid, v0.wngrid
    N, W = c.Len(g), c.Len(req)
    T, P = v0.temperature, v0.pressure
    xs = _XS(c)
    if c.mode == 'conc':
        lo, hi = min(req), max(req)
        idx = [j for j in range(N) if lo <= g[j] <= hi]
        own = len(idx) == W and all(g[j] == req[k] for k, j in enumerate(idx))
        if own:
            return {'native_points_unchanged': len(r) == W and all(c.Eq(r[k], xs(T, P, j)) for k, j in enumerate(idx))}
        d = {'one_value_per_requested_point': len(r) == W}
        ok = d['one_value_per_requested_point']
        for k in range(W if ok else 0):
            x = req[k]
            if x < g[idx[0]]:
                want = xs(T, P, idx[0])
            elif x >= g[idx[-1]]:
                want = xs(T, P, idx[-1])
            else:
                i = max(a for a in range(len(idx) - 1) if g[idx[a]] <= x)
                a, b = idx[i], idx[i + 1]
                want = xs(T, P, a) + (x - g[a]) * ((xs(T, P, b) - xs(T, P, a)) / (g[b] - g[a]))
            ok = ok and c.Eq(r[k], want)
        d['piecewise_linear_through_native_points'] = ok
        return d
    if c.mode == 'bmc':
        return {'length': c.Len(r) == W}
    K, sel, pos = c.last_select
    lo, hi = _amin(c, req), _amax(c, req)
    own = z3.And(K == W, c.Forall(0, W, lambda k: g[sel(k)] == req[k]))
    X = lambda k: g[sel(k)]
    F = lambda k: xs(T, P, sel(k))
    d = {'selection_is_range': c.Forall(0, N, lambda j: z3.And(lo <= g[j], g[j] <= hi) == z3.And(0 <= pos(j), pos(j) < K, sel(pos(j)) == j)),
         'native_points_unchanged': z3.Implies(own, z3.And(c.Len(r) == W, c.Forall(0, W, lambda k: r[k] == F(k)))),
         'one_value_per_requested_point': c.Len(r) == W}
    kk, ii, jj = z3.Ints('kk? ii? jj?')
    d['piecewise_linear_through_native_points'] = z3.Implies(z3.Not(own), z3.And(
        c.Forall(0, W, lambda k: z3.And(z3.Implies(req[k] < X(0), r[k] == F(0)), z3.Implies(req[k] >= X(K - 1), r[k] == F(K - 1)))),
        z3.ForAll([kk, ii, jj], z3.Implies(z3.And(0 <= kk, kk < W, 0 <= ii, ii < K - 1, jj == ii + 1, X(ii) <= req[kk], req[kk] < X(jj)),
                                           r[kk] == F(ii) + (req[kk] - X(ii)) * ((F(jj) - F(ii)) / (X(jj) - X(ii)))))))
    return d


def _op_obj(c, p):
    import numpy as np
    from taurex.opacity.opacity import Opacity

    class _O(Opacity):
        wavenumberGrid = property(lambda self: self._vg)

        def compute_opacity(self, T, P, filt):
            return self._vbase[filt] * (1.0 + T / 1000.0)
    return _quiet(_O.__new__(_O))


def _op_call(c, o, p):
    """one request on the opacity object o (histories: the same object serves several requests; its native grid and
    cross-sections are those of the current inputs, whatever else the object keeps from earlier calls is its own)"""
    import numpy as np
    o._vg = np.array(p['self']['wavenumberGrid'], dtype=float)
    o._vbase = np.array(p['_xs'], dtype=float)
    return np.asarray(o.opacity(p['temperature'], p['pressure'], np.array(p['wngrid'], dtype=float))), p


def _op_params_conc(c):
    d = _op_params(c)
    if c.mode == 'conc':
        import numpy as np
        base = np.array(c.values['xsbase'], dtype=float)
        c.inputs.append(('arr', 'xsbase', ((len(base),), None, 'real')))
        c.concrete_funcs = {'XSN': lambda T, P, j: float(base[j] * (1.0 + T / 1000.0))}
        d['_xs'] = base
    return d


def _op_gen(rng):
    N = rng.randint(1, 8)
    g = sorted(rng.uniform(100, 4000) for _ in range(N))
    mode = rng.choice(['own', 'own_sub', 'other', 'same_count_other_points'])
    if mode == 'own':
        req = list(g)
    elif mode == 'own_sub':
        a = rng.randrange(N)
        b = rng.randrange(a, N)
        req = g[a:b + 1]
    elif mode == 'same_count_other_points' and N >= 3:
        req = [g[0]] + [x + rng.uniform(-5, 5) for x in g[1:-1]] + [g[-1]]
    else:
        req = sorted(rng.uniform(g[0], g[-1]) for _ in range(rng.randint(1, 5)))
    return dict(N=N, W=len(req), native=g, req=req, T=rng.uniform(300, 2000), P=10 ** rng.uniform(0, 6),
                xsbase=[10 ** rng.uniform(-3, 0) for _ in range(N)])


OPU = Unit(['C13', 'C04'], OPA + 'opacity', _op_params_conc, pre=_op_pre, post=_op_post, native_obj=_op_obj, native_call=_op_call, gen=_op_gen, history_fixed=('N', 'native', 'xsbase'), bounds=[dict(N=3, W=2)],
           abstract={'call:compute_opacity': _h_compute_opacity}, inline=['wavenumberGrid'], safety=('index', 'sorted'),
           result=lambda ex, st, v0: st.alloc(ex.c, ex.c.fresh_array('op', (ex.c.fresh('Wr'),))),
           short='Opacity.opacity', timeout_ms=30000,
           doc='cross-sections on the requested grid: unchanged when the request is exactly the molecule\'s own points in '
               'range, otherwise linear interpolation between neighbouring native points, clamped at the ends '
               '(np.where / take / array_equal / np.interp models assumed; compute_opacity abstract, see C04)')


# ------------------------------------------------------------------ nativeWavenumberGrid: first grid of maximal length
SM = 'taurex.model.simplemodel:SimpleForwardModel.'
GASN = ['H2O', 'CH4', 'CO']


def _ng_params(c):
    G = c.choice('G')
    lens = [c.int('len%d' % k) for k in range(G)]
    grids = {GASN[k]: (dict(__obj__='Opacity', wavenumberGrid=c.array('grid%d' % k, (lens[k],))) if c.mode == 'conc' else
                       AbsObj('Opacity', k, {'wavenumberGrid': c.array('grid%d' % k, (lens[k],))})) for k in range(G)}
    chem = dict(__obj__='Chemistry', activeGases=list(GASN[:G])) if c.mode == 'conc' else AbsObj('Chemistry', 0, {'activeGases': list(GASN[:G])})
    return dict(self=ObjSpec('SimpleForwardModel', _chemistry=chem, g_cache=grids))


def _ng_raises(c, v):
    return {'InvalidModelException': len(v.self.g_cache) == 0}


def _ng_post(c, v0, v1, r):
    """the grid of the first active molecule among those with the most points"""
    grids = [v0.self.g_cache[g] for g in GASN[:len(v0.self.g_cache)]]
    L = [c.Len(x['wavenumberGrid'] if c.mode == 'conc' else x.wavenumberGrid) for x in grids]
    d = {}
    for k in range(len(grids)):
        best = c.And(*[c.Lt(L[j], L[k]) for j in range(k)], *[c.Le(L[j], L[k]) for j in range(k + 1, len(grids))])
        gk = grids[k]['wavenumberGrid'] if c.mode == 'conc' else grids[k].wavenumberGrid
        if c.mode == 'conc':
            d['chosen_%d' % k] = (not best) or (len(r) == len(gk) and all(a == b for a, b in zip(r, gk)))
        else:
            d['chosen_%d' % k] = c.Implies(best, c.And(c.Len(r) == L[k], c.Forall(0, L[k], lambda i, gk=gk: r[i] == gk[i])))
    return d


def _ng_native(c, p):
    import numpy as np
    import taurex.cache.opacitycache as oc
    import taurex.cache as tc
    from taurex.model.simplemodel import SimpleForwardModel
    grids = {g: _NS(wavenumberGrid=np.array(o['wavenumberGrid'], dtype=float)) for g, o in p['self']['g_cache'].items()}

    class _M(SimpleForwardModel):
        chemistry = property(lambda self: _NS(activeGases=list(grids)))
    m = _quiet(_M.__new__(_M))
    saved = (oc.OpacityCache, tc.GlobalCache)
    oc.OpacityCache, tc.GlobalCache = (lambda: grids), (lambda: {'opacity_method': 'xsec'})
    try:
        return np.asarray(m.nativeWavenumberGrid), p
    finally:
        oc.OpacityCache, tc.GlobalCache = saved


def _ng_gen(rng):
    G = rng.randint(0, 3)
    d = dict(G=G)
    for k in range(G):
        n = rng.choice([2, 3, 3, 4])
        d['len%d' % k] = n
        d['grid%d' % k] = sorted(rng.uniform(100, 4000) for _ in range(n))
    return d


NG = Unit(['C13', 'C20'], SM + 'nativeWavenumberGrid', _ng_params, raises=_ng_raises, post=_ng_post, native=_ng_native, gen=_ng_gen,
          cases=[{'G': k} for k in (0, 1, 2, 3)], bounds=[dict(len0=2, len1=3, len2=3)],
          pre=lambda c, v: {'lens': c.And(*[c.Len(o.wavenumberGrid) >= 0 for o in v.self.g_cache.values()])} if c.mode != 'conc' else {},
          abstract={'new:OpacityCache': lambda ex, st, args, kwargs, node: st.get(ex.root_env['self']).attrs['g_cache'],
                    'new:KTableCache': lambda ex, st, args, kwargs, node: st.get(ex.root_env['self']).attrs['g_cache'],
                    'new:GlobalCache': lambda ex, st, args, kwargs, node: st.alloc(ex.c, PyDict({'opacity_method': 'xsec'}))},
          inline=['chemistry'], short='SimpleForwardModel.nativeWavenumberGrid',
          doc='choice of the model\'s native grid among the active molecules (0..3 molecules, any grid lengths); no active '
              'molecule is an invalid model')


# ------------------------------------------------------------------ lemmas
def _between(c):
    """linear interpolation between two neighbouring native points lies between their two values"""
    x, x0, x1, f0, f1 = z3.Reals('x x0 x1 f0 f1')
    y = f0 + (x - x0) * ((f1 - f0) / (x1 - x0))
    t = (x - x0) / (x1 - x0)
    return [('between_neighbours', [x0 <= x, x < x1],
             c.hint(z3.And(y >= z3.If(f0 <= f1, f0, f1), y <= z3.If(f0 <= f1, f1, f0)), z3.And(t >= 0, t < 1), y == f0 + t * (f1 - f0),
                    z3.Implies(f1 >= f0, z3.And(t * (f1 - f0) >= 0, t * (f1 - f0) <= f1 - f0)),
                    z3.Implies(f1 <= f0, z3.And(t * (f1 - f0) <= 0, t * (f1 - f0) >= f1 - f0))))]


Lemma('C13', 'interpolated_value_between_neighbours', _between, doc='values on non-native points lie between the neighbouring native values')


def _columns(c):
    """column independence: a run on a sub-grid G' (embedded in the full grid by w' -> f(w')) whose per-contribution
    optical-depth increments are those of the full run at the embedded columns has, layer by layer, the same optical
    depth and the same transmittance at those columns -- for every prefix of the contribution list (so also under the
    saturation cut-off, which stops both runs after the same prefix iff neither or both saturate)"""
    I, R = z3.IntSort(), z3.RealSort()
    tf, ts = z3.Function('tau_full', I, I, R), z3.Function('tau_sub', I, I, R)       # (contribution, column)
    f = z3.Function('embed', I, I)
    m, w, q = z3.Ints('m w q')
    F = lambda k: c.Sum(0, k, lambda i: tf(i, f(w)))
    S = lambda k: c.Sum(0, k, lambda i: ts(i, w))
    same = z3.ForAll([q], ts(q, w) == tf(q, f(w)))
    P = lambda k: S(k) == F(k)
    return [('base', [same], P(0)), ('step', [same, m >= 0, P(m)], P(m + 1)),
            ('transmittance', [P(m)], c.exp(-S(m)) == c.exp(-F(m)))]


Lemma('C13', 'column_independence', _columns,
      doc='the value at a wavenumber depends on the other wavenumbers only through the saturation test: per-column sums '
          'agree term by term (K1 / K2 / compute_absorption / evaluate_emission contracts are column-wise)')


def _edge_bins(c):
    """binning the clipped result = binning the full result: the first native point kept by the clip lies at least half
    a widest bin below every observation bin, so although its mid-point LOWER edge differs between the clipped and the
    full grid (no left neighbour any more), both lower edges are below every observation bin and its overlap with
    every observation bin is the same; symmetrically at the upper end.  Conditions of the statement: no observation
    bin wider than m, native spacing below m/2."""
    gm, g0, g1, minc, m, a, b, ci, wi = z3.Reals('gm g0 g1 minc m a b ci wi')       # g_{s-1} (dropped), g_s, g_{s+1} (kept)
    lo_full, lo_clip, hi = (gm + g0) / 2, g0 - (g1 - g0) / 2, (g0 + g1) / 2
    ov = lambda lo: z3.If(z3.If(b <= hi, b, hi) - z3.If(a >= lo, a, lo) >= 0, z3.If(b <= hi, b, hi) - z3.If(a >= lo, a, lo), 0)
    hyps = [m > 0, gm < minc - m, g0 - gm < m / 2, g0 < g1, g1 - g0 < m / 2, ci >= minc, wi <= m, wi >= 0, a == ci - wi / 2, b == ci + wi / 2]
    return [('kept_point_is_below_every_bin', hyps, z3.And(lo_full < a, lo_clip < a)),
            ('same_overlap', hyps, ov(lo_full) == ov(lo_clip)),
            ('dropped_points_overlap_nothing', hyps + [g0 - gm > 0], (gm + g0) / 2 <= a)]


Lemma('C13', 'clip_does_not_change_binning', _edge_bins,
      doc='interval argument behind "binning the restricted result equals binning the full result" (FluxBinner weights '
          'are overlap lengths, C05)')


# ------------------------------------------------------------------ KTable.opacity: the same, per quadrature point
KT = 'taurex.opacity.ktables.ktable:KTable.'


def _XK(c):
    return c.func('XKN', REAL, REAL, INT, INT, REAL)     # k-coefficient at (T, P) on native bin j, quadrature point g


def _h_compute_kopacity(ex, st, args, kwargs, node):
    c = ex.c
    me, T, P, filt = args
    F = st.get(filt)
    G = st.get(st.get(me).attrs['weights']).shape[0]
    f = _XK(c)
    return st.alloc(c, Arr((F.shape[0], G), lambda ix: f(to_real(T), to_real(P), to_int(F.elem((ix[0],))), to_int(ix[1])), 'real'))


def _kt_params(c):
    N, W, G = c.int('N'), c.int('W'), c.int('G')
    d = dict(self=ObjSpec('KTable', wavenumberGrid=c.array('native', (N,)), weights=c.array('wts', (G,))), temperature=c.real('T'),
             pressure=c.real('P'), wngrid=c.array('req', (W,)))
    if c.mode == 'conc':
        import numpy as np
        base = np.array(c.values['xkbase'], dtype=float).reshape(int(N), int(G))
        c.inputs.append(('arr', 'xkbase', ((N, G), None, 'real')))
        c.concrete_funcs = {'XKN': lambda T, P, j, g: float(base[j, g] * (1.0 + T / 1000.0))}
        d['_xk'] = base
    return d


def _kt_pre(c, v):
    d = _op_pre(c, v)
    d['quadrature'] = c.Len(v.self.weights) >= 1
    return d


def _kt_post(c, v0, v1, r):
    g, req = v0.self.wavenumberGrid, v0.wngrid
    N, W, G = c.Len(g), c.Len(req), c.Len(v0.self.weights)
    T, P = v0.temperature, v0.pressure
    xk = _XK(c)
    if c.mode == 'conc':
        import numpy as np
        lo, hi = min(req), max(req)
        idx = [j for j in range(N) if lo <= g[j] <= hi]
        own = len(idx) == W and all(g[j] == req[k] for k, j in enumerate(idx))
        r = np.asarray(r)
        if r.shape != (W, G):
            return {'one_row_per_requested_point': False}
        ok = True
        for k in range(W):
            for q in range(G):
                x = req[k]
                if own:
                    want = xk(T, P, idx[k], q)
                elif x < g[idx[0]]:
                    want = xk(T, P, idx[0], q)
                elif x >= g[idx[-1]]:
                    want = xk(T, P, idx[-1], q)
                else:
                    i = max(a for a in range(len(idx) - 1) if g[idx[a]] <= x)
                    a, b = idx[i], idx[i + 1]
                    want = xk(T, P, a, q) + (x - g[a]) * ((xk(T, P, b, q) - xk(T, P, a, q)) / (g[b] - g[a]))
                ok = ok and c.Eq(r[k, q], want)
        return {'native_bins_unchanged' if own else 'piecewise_linear_through_native_bins': ok}
    if c.mode == 'bmc':
        return {'rows': c.Shape(r)[0] == W}
    K, sel, pos = c.last_select
    own = z3.And(K == W, c.Forall(0, W, lambda k: g[sel(k)] == req[k]))
    X = lambda k: g[sel(k)]
    F = lambda k, q: xk(T, P, sel(k), q)
    kk, qq, ii, jj = z3.Ints('kk? qq? ii? jj?')
    return {'shape': c.And(c.Shape(r)[0] == W, c.Shape(r)[1] == G),
            'native_bins_unchanged': z3.Implies(own, c.Forall2((0, W), (0, G), lambda k, q: r[k, q] == F(k, q))),
            'piecewise_linear_through_native_bins': z3.Implies(z3.Not(own), z3.And(
                c.Forall2((0, W), (0, G), lambda k, q: z3.And(z3.Implies(req[k] < X(0), r[k, q] == F(0, q)),
                                                              z3.Implies(req[k] >= X(K - 1), r[k, q] == F(K - 1, q)))),
                z3.ForAll([kk, qq, ii, jj], z3.Implies(
                    z3.And(0 <= kk, kk < W, 0 <= qq, qq < G, 0 <= ii, ii < K - 1, jj == ii + 1, X(ii) <= req[kk], req[kk] < X(jj)),
                    r[kk, qq] == F(ii, qq) + (req[kk] - X(ii)) * ((F(jj, qq) - F(ii, qq)) / (X(jj) - X(ii)))))))}


def _kt_native(c, p):
    import numpy as np
    from taurex.opacity.ktables.ktable import KTable
    g = np.array(p['self']['wavenumberGrid'], dtype=float)
    wts = np.array(p['self']['weights'], dtype=float)
    base = np.array(p['_xk'], dtype=float)

    class _K(KTable):
        wavenumberGrid = property(lambda self: g)
        weights = property(lambda self: wts)

        def compute_opacity(self, T, P, filt):
            return base[filt] * (1.0 + T / 1000.0)
    o = _quiet(_K.__new__(_K))
    return np.asarray(o.opacity(p['temperature'], p['pressure'], np.array(p['wngrid'], dtype=float))), p


def _kt_gen(rng):
    d = _op_gen(rng)
    G = rng.randint(1, 3)
    d.update(G=G, wts=[1.0 / G] * G, xkbase=[[10 ** rng.uniform(-3, 0) for _ in range(G)] for _ in range(d['N'])])
    return d


KTO = Unit(['C13', 'C20', 'C04'], KT + 'opacity', _kt_params, pre=_kt_pre, post=_kt_post, native=_kt_native, gen=_kt_gen, bounds=[dict(N=3, W=2, G=1)],
           abstract={'call:compute_opacity': _h_compute_kopacity}, inline=['wavenumberGrid', 'weights'], safety=('index', 'sorted'),
           result=lambda ex, st, v0: st.alloc(ex.c, ex.c.fresh_array('kop', (ex.c.fresh('Wr'), ex.c.fresh('Gr')))),
           short='KTable.opacity', timeout_ms=30000,
           doc='k-coefficients on the requested grid: unchanged when the request is exactly the table\'s own bins in range, '
               'otherwise linear interpolation per quadrature point (scipy interp1d with edge fill values: assumed model)')


# ------------------------------------------------------------------ Opacity.opacity without a requested grid: the whole native table
def _h_compute_opacity_all(ex, st, args, kwargs, node):
    """compute_opacity(T, P, filter): with the filter slice(None) every native point, in order (same assumed contract as above)"""
    c = ex.c
    me, T, P, filt = args
    f = _XS(c)
    if isinstance(filt, slice) and filt == slice(None):
        g = st.get(st.get(me).attrs['wavenumberGrid'])
        return st.alloc(c, Arr(g.shape, lambda ix: f(to_real(T), to_real(P), to_int(ix[0])), 'real'))
    return _h_compute_opacity(ex, st, args, kwargs, node)


def _opn_call(c, o, p):
    import numpy as np
    o._vg = np.array(p['self']['wavenumberGrid'], dtype=float)
    o._vbase = np.array(p['_xs'], dtype=float)
    return np.asarray(o.opacity(p['temperature'], p['pressure'])), p


OPN = Unit(['C13', 'C04'], OPA + 'opacity', lambda c: dict(_op_params_conc(c), wngrid=None), variant='no_grid_requested',
           pre=lambda c, v: {'sizes': c.Len(v.self.wavenumberGrid) >= 0},
           post=lambda c, v0, v1, r: {'every_native_point_in_order': c.And(c.Len(r) == c.Len(v0.self.wavenumberGrid),
                                                                            c.Forall(0, c.Len(r), lambda k: c.Eq(r[k], _XS(c)(v0.temperature, v0.pressure, k))))},
           native_obj=_op_obj, native_call=_opn_call, gen=_op_gen, bounds=[dict(N=3, W=2)],
           abstract={'call:compute_opacity': _h_compute_opacity_all, 'call:slice': lambda ex, st, args, kwargs, node: slice(*args)}, inline=['wavenumberGrid'],
           short='Opacity.opacity@no_grid', doc='without a requested grid: the cross-section at (T, P) on every native point, in order')
