"""C20 -- correlated-k reduces to cross-sections when the k-distribution is degenerate.

Under contract: absorption.contribute_ktau (5 nested loops, numba).  Lemmas DEG / RANGE over the spec."""
import z3
from pyvc.unit import Unit, ObjSpec, Lemma


def _kt_params(c):
    rs, cs, G = c.int('rows_sigma'), c.int('cols_sigma'), c.int('ngauss')
    rt, ct = c.int('rows_tau'), c.int('cols_tau')
    return dict(startK=c.int('startK'), endK=c.int('endK'), density_offset=c.int('density_offset'),
                sigma=c.array('sigma', (rs, cs, c.int('g_sigma'))), density=c.array('density', (c.int('len_density'),)),
                path=c.array('path', (c.int('len_path'),)), weights=c.array('weights', (c.int('len_weights'),)),
                tau=c.array('tau', (rt, ct)), ngrid=c.int('ngrid'), layer=c.int('layer'), ngauss=G)


def kt_pre(c, v):
    rs, cs, gs = c.Shape(v.sigma)
    rt, ct = c.Shape(v.tau)
    return {
        'sizes': c.And(rs >= 0, cs >= 0, gs >= 0, rt >= 0, ct >= 0),
        'startK': v.startK >= 0,
        'layer': c.And(0 <= v.layer, v.layer < rt),
        'ngrid': c.And(0 <= v.ngrid, v.ngrid <= ct, v.ngrid <= cs),
        'ngauss': c.And(0 <= v.ngauss, v.ngauss <= gs, v.ngauss <= c.Len(v.weights)),
        'range': c.Implies(v.startK < v.endK,
                           c.And(v.endK + v.layer <= rs, v.endK + v.density_offset <= c.Len(v.density),
                                 v.startK + v.density_offset >= 0, v.endK <= c.Len(v.path))),
    }


def T(c, v, hi, w, g):
    """per-quadrature-point slant optical depth  t_g(w) = sum_k sigma[k+layer,w,g]*path[k]*density[k+off]"""
    return c.Sum(v.startK, hi, lambda k: v.sigma[k + v.layer, w, g] * v.path[k] * v.density[k + v.density_offset])


def trans(c, v, hi, w, G):
    """weighted transmittance  sum_g weights[g]*exp(-t_g(w))"""
    return c.Sum(0, G, lambda g: c.exp(-T(c, v, hi, w, g)) * v.weights[g])


def kt_post(c, v0, v1, r):
    rt, ct = c.Shape(v0.tau)
    hi = c.Max(v0.startK, v0.endK)
    return {
        'ktau': c.Forall(0, v0.ngrid, lambda w: c.Eq(v1.tau[v0.layer, w],
                                                      v0.tau[v0.layer, w] - c.ln(trans(c, v0, hi, w, v0.ngauss)))),
        'frame': c.Forall2((0, rt), (0, ct), lambda r_, w: c.Implies(
            c.Not(c.And(r_ == v0.layer, w < v0.ngrid)), c.Eq(v1.tau[r_, w], v0.tau[r_, w]))),
    }


def _shape_tt(c, v, v0):
    return c.And(c.Shape(v.tau_temp)[0] == v0.ngrid, c.Shape(v.tau_temp)[1] == v0.ngauss)


def kt_inv0(c, v, v0, k):
    return {'shape': _shape_tt(c, v, v0),
            'acc': c.Forall2((0, v0.ngrid), (0, v0.ngauss), lambda w, g: v.tau_temp[w, g] == T(c, v0, k, w, g))}


def kt_inv1(c, v, v0, wn):
    k = v.k
    return {'shape': _shape_tt(c, v, v0),
            'locals': c.And(v._path == v0.path[k], v._density == v0.density[k + v0.density_offset]),
            'done': c.Forall2((0, wn), (0, v0.ngauss), lambda w, g: v.tau_temp[w, g] == T(c, v0, k + 1, w, g)),
            'todo': c.Forall2((wn, v0.ngrid), (0, v0.ngauss), lambda w, g: v.tau_temp[w, g] == T(c, v0, k, w, g))}


def kt_inv2(c, v, v0, g_):
    k, wn = v.k, v.wn
    return {'shape': _shape_tt(c, v, v0),
            'locals': c.And(v._path == v0.path[k], v._density == v0.density[k + v0.density_offset]),
            'done': c.Forall2((0, wn), (0, v0.ngauss), lambda w, g: v.tau_temp[w, g] == T(c, v0, k + 1, w, g)),
            'row_done': c.Forall(0, g_, lambda g: v.tau_temp[wn, g] == T(c, v0, k + 1, wn, g)),
            'row_todo': c.Forall(g_, v0.ngauss, lambda g: v.tau_temp[wn, g] == T(c, v0, k, wn, g)),
            'todo': c.Forall2((wn + 1, v0.ngrid), (0, v0.ngauss), lambda w, g: v.tau_temp[w, g] == T(c, v0, k, w, g))}


def kt_inv3(c, v, v0, wn):
    rt, ct = c.Shape(v0.tau)
    hi = c.Max(v0.startK, v0.endK)
    return {'done': c.Forall(0, wn, lambda w: v.tau[v0.layer, w] == v0.tau[v0.layer, w]
                             - c.ln(trans(c, v0, hi, w, v0.ngauss))),
            'todo': c.Forall(wn, v0.ngrid, lambda w: v.tau[v0.layer, w] == v0.tau[v0.layer, w]),
            'frame': c.Forall2((0, rt), (0, ct), lambda r_, w: c.Implies(
                c.Not(c.And(r_ == v0.layer, w < v0.ngrid)), v.tau[r_, w] == v0.tau[r_, w]))}


def kt_inv4(c, v, v0, g_):
    hi = c.Max(v0.startK, v0.endK)
    return {'acc': v.transtemp == trans(c, v0, hi, v.wn, g_)}


def _kt_gen(rng):
    n, W, G = rng.randint(1, 3), rng.randint(1, 2), rng.randint(1, 3)
    layer = rng.randint(0, n - 1)
    endK = n - layer
    wts = [rng.uniform(0.1, 1) for _ in range(G)]
    sw = sum(wts)
    return dict(rows_sigma=n, cols_sigma=W, g_sigma=G, ngauss=G, rows_tau=n, cols_tau=W, startK=0, endK=endK,
                density_offset=layer, len_density=n, len_path=endK, len_weights=G, ngrid=W, layer=layer,
                sigma=[[[rng.uniform(0, 1) for _ in range(G)] for _ in range(W)] for _ in range(n)],
                density=[rng.uniform(0, 2) for _ in range(n)], path=[rng.uniform(0, 2) for _ in range(endK)],
                weights=[x / sw for x in wts], tau=[[rng.uniform(0, 1) for _ in range(W)] for _ in range(n)])


KT = Unit('C20', 'taurex.contributions.absorption:contribute_ktau', _kt_params, pre=kt_pre, post=kt_post,
          frame=['tau'], invariants={0: kt_inv0, 1: kt_inv1, 2: kt_inv2, 3: kt_inv3, 4: kt_inv4}, gen=_kt_gen,
          bounds=[dict(rows_sigma=2, cols_sigma=1, g_sigma=2, ngauss=2, rows_tau=2, cols_tau=1, startK=0, endK=1,
                       density_offset=1, len_density=2, len_path=1, len_weights=2, ngrid=1, layer=1),
                  dict(rows_sigma=2, cols_sigma=2, g_sigma=2, ngauss=2, rows_tau=2, cols_tau=2, startK=0, endK=2,
                       density_offset=0, len_density=2, len_path=2, len_weights=2, ngrid=2, layer=0)],
          doc='tau[layer,w] += -ln( sum_g weights[g]*exp(-t_g(w)) ), t_g the K1 sum per quadrature point')


# ------------------------------------------------------------------ lemmas over the spec
def _deg(c):
    """DEG: coefficients identical across quadrature points and weights summing to one => the k-table increment
    equals K1's cross-section increment."""
    I, R = z3.IntSort(), z3.RealSort()
    sig3 = z3.Function('sig3', I, I, I, R)
    sig2 = z3.Function('sig2', I, I, R)
    path, dens, wt = z3.Function('path', I, R), z3.Function('dens', I, R), z3.Function('wt', I, R)
    lo, m, w, g, G, layer, off = z3.Ints('lo m w g G layer off')
    k_, w_, g_ = z3.Ints('k_ w_ g_')
    same = z3.ForAll([k_, w_, g_], sig3(k_, w_, g_) == sig2(k_, w_))

    def T3(hi, w, g):
        return c.Sum(lo, hi, lambda k: sig3(k + layer, w, g) * path(k) * dens(k + off))

    def T2(hi, w):
        return c.Sum(lo, hi, lambda k: sig2(k + layer, w) * path(k) * dens(k + off))
    items = [('T.base', [same], T3(lo, w, g) == T2(lo, w)),
             ('T.step', [same, m >= lo, T3(m, w, g) == T2(m, w)], T3(m + 1, w, g) == T2(m + 1, w))]
    hi = z3.Int('hi')
    mm = z3.Int('mm')
    Tall = z3.ForAll([mm, w_, g_], z3.Implies(mm >= lo, T3(mm, w_, g_) == T2(mm, w_)))     # = induction T.base/T.step

    def A(n):
        return c.Sum(0, n, lambda q: c.exp(-T3(hi, w, q)) * wt(q))

    def B(n):
        return c.Sum(0, n, lambda q: wt(q))
    t = T2(hi, w)
    items += [('W.base', [Tall, hi >= lo], A(0) == c.exp(-t) * B(0)),
              ('W.step', [Tall, hi >= lo, m >= 0, A(m) == c.exp(-t) * B(m)],
               c.hint(A(m + 1) == c.exp(-t) * B(m + 1), T3(hi, w, m) == t, c.exp(-T3(hi, w, m)) == c.exp(-t),
                      A(m + 1) == A(m) + c.exp(-T3(hi, w, m)) * wt(m), B(m + 1) == B(m) + wt(m)))]
    Wall = z3.ForAll([mm], z3.Implies(mm >= 0, A(mm) == c.exp(-t) * B(mm)))
    items += [('final', [Tall, Wall, hi >= lo, G >= 0, B(G) == 1],
               c.hint(-c.ln(A(G)) == t, A(G) == c.exp(-t), c.ln(c.exp(-t)) == -t))]
    return items


Lemma('C20', 'degenerate_k_equals_xsec', _deg,
      doc='induction over layers (T) and over quadrature points (W): -ln(sum_g wt_g exp(-t)) = t when sum wt = 1')


def _range(c):
    """RANGE: weights >= 0 summing to one, per-point depths >= 0  =>  0 < sum_g wt_g exp(-t_g) <= 1."""
    I, R = z3.IntSort(), z3.RealSort()
    t, wt = z3.Function('t', I, R), z3.Function('wt', I, R)
    m, G, q_ = z3.Ints('m G q_')
    pos = z3.ForAll([q_], z3.And(wt(q_) >= 0, t(q_) >= 0))

    def A(n):
        return c.Sum(0, n, lambda q: c.exp(-t(q)) * wt(q))

    def B(n):
        return c.Sum(0, n, lambda q: wt(q))

    def P(n):       # 0 <= A(n) <= B(n), and A(n) > 0 as soon as B(n) > 0
        return z3.And(A(n) >= 0, A(n) <= B(n), z3.Implies(B(n) > 0, A(n) > 0), B(n) >= 0)
    mm = z3.Int('mm')
    return [('base', [pos], P(0)),
            ('step', [pos, m >= 0, P(m)], c.hint(P(m + 1), z3.And(c.exp(-t(m)) > 0, c.exp(-t(m)) <= 1),
                                                 z3.And(c.exp(-t(m)) * wt(m) >= 0, c.exp(-t(m)) * wt(m) <= wt(m)),
                                                 z3.Implies(wt(m) > 0, c.exp(-t(m)) * wt(m) > 0))),
            ('final', [z3.ForAll([mm], z3.Implies(mm >= 0, P(mm))), G >= 0, B(G) == 1], z3.And(A(G) > 0, A(G) <= 1))]


Lemma('C20', 'transmittance_in_unit_interval', _range,
      doc='the weight-averaged exponential lies in (0,1] (so its -ln is a finite non-negative optical depth)')
