"""C20 -- correlated-k reduces to cross-sections when the k-distribution is degenerate.

Under contract: absorption.contribute_ktau (5 nested loops, numba).  Lemmas DEG / RANGE over the spec."""
import types
import z3
from pyvc.unit import Unit, ObjSpec, Lemma


def _kt_params(c):
    rs, cs, G = c.int('rows_sigma'), c.int('cols_sigma'), c.int('ngauss')
    rt, ct = c.int('rows_tau'), c.int('cols_tau')
    return dict(startK=c.int('startK'), endK=c.int('endK'), density_offset=c.int('density_offset'),
                sigma=c.array('sigma', (rs, cs, c.int('g_sigma'))), density=c.array('density', (c.int('len_density'),)),
                path=c.array('path', (c.int('len_path'),)), weights=c.array('weights', (c.int('len_weights'),)),
                tau=c.array('tau', (rt, ct)), ngrid=c.int('ngrid'), layer=c.int('layer'), ngauss=G)


def kt_pre(c, v):
    rs, cs, gs = c.Shape(v.sigma)
    rt, ct = c.Shape(v.tau)
    return {
        'sizes': c.And(rs >= 0, cs >= 0, gs >= 0, rt >= 0, ct >= 0),
        'startK': v.startK >= 0,
        'layer': c.And(0 <= v.layer, v.layer < rt),
        'ngrid': c.And(0 <= v.ngrid, v.ngrid <= ct, v.ngrid <= cs),
        'ngauss': c.And(0 <= v.ngauss, v.ngauss <= gs, v.ngauss <= c.Len(v.weights)),
        'range': c.Implies(v.startK < v.endK,
                           c.And(v.endK + v.layer <= rs, v.endK + v.density_offset <= c.Len(v.density),
                                 v.startK + v.density_offset >= 0, v.endK <= c.Len(v.path))),
    }


def T(c, v, hi, w, g):
    """per-quadrature-point slant optical depth  t_g(w) = sum_k sigma[k+layer,w,g]*path[k]*density[k+off]"""
    return c.Sum(v.startK, hi, lambda k: v.sigma[k + v.layer, w, g] * v.path[k] * v.density[k + v.density_offset])


def trans(c, v, hi, w, G):
    """weighted transmittance  sum_g weights[g]*exp(-t_g(w))"""
    return c.Sum(0, G, lambda g: c.exp(-T(c, v, hi, w, g)) * v.weights[g])


def kt_post(c, v0, v1, r):
    rt, ct = c.Shape(v0.tau)
    hi = c.Max(v0.startK, v0.endK)
    return {
        'ktau': c.Forall(0, v0.ngrid, lambda w: c.Eq(v1.tau[v0.layer, w],
                                                      v0.tau[v0.layer, w] - c.ln(trans(c, v0, hi, w, v0.ngauss)))),
        'frame': c.Forall2((0, rt), (0, ct), lambda r_, w: c.Implies(
            c.Not(c.And(r_ == v0.layer, w < v0.ngrid)), c.Eq(v1.tau[r_, w], v0.tau[r_, w]))),
    }


def _shape_tt(c, v, v0):
    return c.And(c.Shape(v.tau_temp)[0] == v0.ngrid, c.Shape(v.tau_temp)[1] == v0.ngauss)


def kt_inv0(c, v, v0, k):
    return {'shape': _shape_tt(c, v, v0),
            'acc': c.Forall2((0, v0.ngrid), (0, v0.ngauss), lambda w, g: v.tau_temp[w, g] == T(c, v0, k, w, g))}


def kt_inv1(c, v, v0, wn):
    k = v.k
    return {'shape': _shape_tt(c, v, v0),
            'locals': c.And(v._path == v0.path[k], v._density == v0.density[k + v0.density_offset]),
            'done': c.Forall2((0, wn), (0, v0.ngauss), lambda w, g: v.tau_temp[w, g] == T(c, v0, k + 1, w, g)),
            'todo': c.Forall2((wn, v0.ngrid), (0, v0.ngauss), lambda w, g: v.tau_temp[w, g] == T(c, v0, k, w, g))}


def kt_inv2(c, v, v0, g_):
    k, wn = v.k, v.wn
    return {'shape': _shape_tt(c, v, v0),
            'locals': c.And(v._path == v0.path[k], v._density == v0.density[k + v0.density_offset]),
            'done': c.Forall2((0, wn), (0, v0.ngauss), lambda w, g: v.tau_temp[w, g] == T(c, v0, k + 1, w, g)),
            'row_done': c.Forall(0, g_, lambda g: v.tau_temp[wn, g] == T(c, v0, k + 1, wn, g)),
            'row_todo': c.Forall(g_, v0.ngauss, lambda g: v.tau_temp[wn, g] == T(c, v0, k, wn, g)),
            'todo': c.Forall2((wn + 1, v0.ngrid), (0, v0.ngauss), lambda w, g: v.tau_temp[w, g] == T(c, v0, k, w, g))}


def kt_inv3(c, v, v0, wn):
    rt, ct = c.Shape(v0.tau)
    hi = c.Max(v0.startK, v0.endK)
    return {'done': c.Forall(0, wn, lambda w: v.tau[v0.layer, w] == v0.tau[v0.layer, w]
                             - c.ln(trans(c, v0, hi, w, v0.ngauss))),
            'todo': c.Forall(wn, v0.ngrid, lambda w: v.tau[v0.layer, w] == v0.tau[v0.layer, w]),
            'frame': c.Forall2((0, rt), (0, ct), lambda r_, w: c.Implies(
                c.Not(c.And(r_ == v0.layer, w < v0.ngrid)), v.tau[r_, w] == v0.tau[r_, w]))}


def kt_inv4(c, v, v0, g_):
    hi = c.Max(v0.startK, v0.endK)
    return {'acc': v.transtemp == trans(c, v0, hi, v.wn, g_)}


def _kt_gen(rng):
    n, W, G = rng.randint(1, 3), rng.randint(1, 2), rng.randint(1, 3)
    layer = rng.randint(0, n - 1)
    endK = n - layer
    wts = [rng.uniform(0.1, 1) for _ in range(G)]
    sw = sum(wts)
    return dict(rows_sigma=n, cols_sigma=W, g_sigma=G, ngauss=G, rows_tau=n, cols_tau=W, startK=0, endK=endK,
                density_offset=layer, len_density=n, len_path=endK, len_weights=G, ngrid=W, layer=layer,
                sigma=[[[rng.uniform(0, 1) for _ in range(G)] for _ in range(W)] for _ in range(n)],
                density=[rng.uniform(0, 2) for _ in range(n)], path=[rng.uniform(0, 2) for _ in range(endK)],
                weights=[x / sw for x in wts], tau=[[rng.uniform(0, 1) for _ in range(W)] for _ in range(n)])


def _kt_native(c, p):
    """the compiled (numba) kernel itself on concrete arrays; tau is updated in place"""
    import numpy as np
    from taurex.contributions.absorption import contribute_ktau
    tau = np.array(p['tau'], dtype=np.float64)
    contribute_ktau(int(p['startK']), int(p['endK']), int(p['density_offset']), np.array(p['sigma'], dtype=np.float64),
                    np.array(p['density'], dtype=np.float64), np.array(p['path'], dtype=np.float64), np.array(p['weights'], dtype=np.float64),
                    tau, int(p['ngrid']), int(p['layer']), int(p['ngauss']))
    return None, dict(p, tau=tau)


KT = Unit('C20', 'taurex.contributions.absorption:contribute_ktau', _kt_params, pre=kt_pre, post=kt_post,
          frame=['tau'], invariants={0: kt_inv0, 1: kt_inv1, 2: kt_inv2, 3: kt_inv3, 4: kt_inv4}, gen=_kt_gen, native=_kt_native,
          bounds=[dict(rows_sigma=2, cols_sigma=1, g_sigma=2, ngauss=2, rows_tau=2, cols_tau=1, startK=0, endK=1,
                       density_offset=1, len_density=2, len_path=1, len_weights=2, ngrid=1, layer=1),
                  dict(rows_sigma=2, cols_sigma=2, g_sigma=2, ngauss=2, rows_tau=2, cols_tau=2, startK=0, endK=2,
                       density_offset=0, len_density=2, len_path=2, len_weights=2, ngrid=2, layer=0)],
          doc='tau[layer,w] += -ln( sum_g weights[g]*exp(-t_g(w)) ), t_g the K1 sum per quadrature point')


# ------------------------------------------------------------------ lemmas over the spec
def _deg(c):
    """DEG: coefficients identical across quadrature points and weights summing to one => the k-table increment
    equals K1's cross-section increment."""
    I, R = z3.IntSort(), z3.RealSort()
    sig3 = z3.Function('sig3', I, I, I, R)
    sig2 = z3.Function('sig2', I, I, R)
    path, dens, wt = z3.Function('path', I, R), z3.Function('dens', I, R), z3.Function('wt', I, R)
    lo, m, w, g, G, layer, off = z3.Ints('lo m w g G layer off')
    k_, w_, g_ = z3.Ints('k_ w_ g_')
    same = z3.ForAll([k_, w_, g_], sig3(k_, w_, g_) == sig2(k_, w_))

    def T3(hi, w, g):
        return c.Sum(lo, hi, lambda k: sig3(k + layer, w, g) * path(k) * dens(k + off))

    def T2(hi, w):
        return c.Sum(lo, hi, lambda k: sig2(k + layer, w) * path(k) * dens(k + off))
    items = [('T.base', [same], T3(lo, w, g) == T2(lo, w)),
             ('T.step', [same, m >= lo, T3(m, w, g) == T2(m, w)], T3(m + 1, w, g) == T2(m + 1, w))]
    hi = z3.Int('hi')
    mm = z3.Int('mm')
    Tall = z3.ForAll([mm, w_, g_], z3.Implies(mm >= lo, T3(mm, w_, g_) == T2(mm, w_)))     # = induction T.base/T.step

    def A(n):
        return c.Sum(0, n, lambda q: c.exp(-T3(hi, w, q)) * wt(q))

    def B(n):
        return c.Sum(0, n, lambda q: wt(q))
    t = T2(hi, w)
    items += [('W.base', [Tall, hi >= lo], A(0) == c.exp(-t) * B(0)),
              ('W.step', [Tall, hi >= lo, m >= 0, A(m) == c.exp(-t) * B(m)],
               c.hint(A(m + 1) == c.exp(-t) * B(m + 1), T3(hi, w, m) == t, c.exp(-T3(hi, w, m)) == c.exp(-t),
                      A(m + 1) == A(m) + c.exp(-T3(hi, w, m)) * wt(m), B(m + 1) == B(m) + wt(m)))]
    Wall = z3.ForAll([mm], z3.Implies(mm >= 0, A(mm) == c.exp(-t) * B(mm)))
    items += [('final', [Tall, Wall, hi >= lo, G >= 0, B(G) == 1],
               c.hint(-c.ln(A(G)) == t, A(G) == c.exp(-t), c.ln(c.exp(-t)) == -t))]
    return items


Lemma('C20', 'degenerate_k_equals_xsec', _deg,
      doc='induction over layers (T) and over quadrature points (W): -ln(sum_g wt_g exp(-t)) = t when sum wt = 1')


def _range(c):
    """RANGE: weights >= 0 summing to one, per-point depths >= 0  =>  0 < sum_g wt_g exp(-t_g) <= 1."""
    I, R = z3.IntSort(), z3.RealSort()
    t, wt = z3.Function('t', I, R), z3.Function('wt', I, R)
    m, G, q_ = z3.Ints('m G q_')
    pos = z3.ForAll([q_], z3.And(wt(q_) >= 0, t(q_) >= 0))

    def A(n):
        return c.Sum(0, n, lambda q: c.exp(-t(q)) * wt(q))

    def B(n):
        return c.Sum(0, n, lambda q: wt(q))

    def P(n):       # 0 <= A(n) <= B(n), and A(n) > 0 as soon as B(n) > 0
        return z3.And(A(n) >= 0, A(n) <= B(n), z3.Implies(B(n) > 0, A(n) > 0), B(n) >= 0)
    mm = z3.Int('mm')
    return [('base', [pos], P(0)),
            ('step', [pos, m >= 0, P(m)], c.hint(P(m + 1), z3.And(c.exp(-t(m)) > 0, c.exp(-t(m)) <= 1),
                                                 z3.And(c.exp(-t(m)) * wt(m) >= 0, c.exp(-t(m)) * wt(m) <= wt(m)),
                                                 z3.Implies(wt(m) > 0, c.exp(-t(m)) * wt(m) > 0))),
            ('final', [z3.ForAll([mm], z3.Implies(mm >= 0, P(mm))), G >= 0, B(G) == 1], z3.And(A(G) > 0, A(G) <= 1))]


Lemma('C20', 'transmittance_in_unit_interval', _range,
      doc='the weight-averaged exponential lies in (0,1] (so its -ln is a finite non-negative optical depth)')


# ------------------------------------------------------------------ contribute_ktau_emission: per-point optical depths of a layer range
def _kte_params(c):
    rs, cs, G = c.int('rows_sigma'), c.int('cols_sigma'), c.int('ngauss')
    return dict(startK=c.int('startK'), endK=c.int('endK'), density_offset=c.int('density_offset'),
                sigma=c.array('sigma', (rs, cs, c.int('g_sigma'))), density=c.array('density', (c.int('len_density'),)),
                path=c.array('path', (c.int('len_path'),)), weights=c.array('weights', (c.int('len_weights'),)),
                ngrid=c.int('ngrid'), layer=c.int('layer'), ngauss=G)


def kte_pre(c, v):
    rs, cs, gs = c.Shape(v.sigma)
    return {'sizes': c.And(rs >= 0, cs >= 0, gs >= 0), 'startK': v.startK >= 0, 'layer': 0 <= v.layer,
            'ngrid': c.And(0 <= v.ngrid, v.ngrid <= cs), 'ngauss': c.And(0 <= v.ngauss, v.ngauss <= gs),
            'range': c.Implies(v.startK < v.endK, c.And(v.endK + v.layer <= rs, v.endK + v.density_offset <= c.Len(v.density),
                                                        v.startK + v.density_offset >= 0, v.endK <= c.Len(v.path)))}


def kte_post(c, v0, v1, r):
    hi = c.Max(v0.startK, v0.endK)
    return {'shape': c.And(c.Shape(r)[0] == v0.ngrid, c.Shape(r)[1] == v0.ngauss),
            'per_point_depth': c.Forall2((0, v0.ngrid), (0, v0.ngauss), lambda w, g: c.Eq(r[w, g], T(c, v0, hi, w, g)))}


def _kte_native(c, p):
    import numpy as np
    from taurex.model.emission import contribute_ktau_emission
    r = contribute_ktau_emission(p['startK'], p['endK'], p['density_offset'], np.array(p['sigma'], dtype=float), np.array(p['density'], dtype=float),
                                 np.array(p['path'], dtype=float), np.array(p['weights'], dtype=float), p['ngrid'], p['layer'], p['ngauss'])
    return np.asarray(r), p


def _kte_gen(rng):
    d = _kt_gen(rng)
    d.pop('tau', None), d.pop('rows_tau', None), d.pop('cols_tau', None)
    return d


KTE = Unit(['C20', 'C02'], 'taurex.model.emission:contribute_ktau_emission', _kte_params, pre=kte_pre, post=kte_post,
           invariants={0: kt_inv0, 1: kt_inv1, 2: kt_inv2}, gen=_kte_gen, native=_kte_native,
           bounds=[dict(rows_sigma=2, cols_sigma=1, g_sigma=2, ngauss=2, startK=0, endK=1, density_offset=1, len_density=2, len_path=1,
                        len_weights=2, ngrid=1, layer=1)],
           result=lambda ex, st, v0: st.alloc(ex.c, ex.c.fresh_array('ktemp', (v0.ngrid, v0.ngauss))),
           doc='returns t_g(w) = sum_k sigma[k+layer,w,g] path[k] density[k+off] for the layer range, per quadrature point')


# ------------------------------------------------------------------ evaluate_emission_ktables: the emission integral with k-tables
# I(mu, w) = B(T_0)/pi Surf(mu, w) + sum_l B(T_l)/pi (ML(l) - MD(l)),  with for the molecular (k-table) part the
# weight-averaged exponentials  sum_g wt_g exp(-mu t_g)  of the per-point depths t_g above (ML) / above-and-including (MD)
# layer l, times exp(-mu tau_other) for the other contributions (K2E form, C02).  Degenerate coefficients and
# sum wt = 1 turn every weight-averaged exponential into exp(-mu t): the cross-section expression of C02 (lemma
# degenerate_emission_factor) -- PROVIDED both branches integrate over the same layer thicknesses (model.deltaz).
from contracts import c02 as _c02
from pyvc.engine import AbsObj
from pyvc.core import Arr, to_int, to_real
EMK = 'taurex.model.emission:EmissionModel.'


def _ek_params(c):
    M, mol, G = c.choice('M'), c.choice('mol'), c.choice('G')
    n, W, NG = c.int('n'), c.int('W'), c.int('NG')
    if c.mode == 'conc':
        import numpy as np
        sig = [np.array(c.values['sigma%d' % k], dtype=float).reshape(n, W) for k in range(M)]
        for k in range(M):
            c.inputs.append(('arr', 'sigma%d' % k, ((n, W), None, 'real')))
        contribs = [dict(__obj__='Contribution', ident=k, sigma=sig[k]) for k in range(M)]
    else:
        contribs = [AbsObj('Contribution', k, {}) for k in range(M)]
    if mol:
        contribs = contribs + [ObjSpec('AbsorptionContribution', _use_ktables=True, sigma_xsec=c.array('ksigma', (n, W, NG)),
                                       weights=c.array('wts', (NG,)), _ngrid=W, _nlayers=n)]
    d = dict(self=ObjSpec('EmissionModel', nLayers=n, deltaz=c.array('dz', (n,)), altitude_profile=c.array('z', (n,)), contribution_list=contribs,
                          _clamp=c.real('clamp'), _mu_quads=c.array('muq', (G,)), _wi_quads=c.array('wq', (G,)),
                          _pressure_profile=ObjSpec('PressureProfile', profile=c.array('P', (n,))),
                          _temperature_profile=ObjSpec('TemperatureProfile', profile=c.array('T', (n,)))),
             wngrid=c.array('wngrid', (W,)), return_contrib=False)
    if c.mode == 'conc':
        import numpy as np
        Kb = c.constant('KBOLTZ')
        s = d['self'].attrs
        dens = np.array(s['_pressure_profile'].attrs['profile']) / (Kb * np.array(s['_temperature_profile'].attrs['profile']))
        dz = s['deltaz']
        from taurex.util.emission import black_body
        wn = d['wngrid']
        c.concrete_funcs = {'KAP': lambda ci, k, w: float(sig[ci][k, w] * dz[k] * dens[k]),
                            'PL': lambda T, w: float(black_body(np.array([wn[w]], dtype=float), float(T))[0])}
    return d


def _ek_pre(c, v):
    s = v.self
    n, W, G = s.nLayers, c.Len(v.wngrid), c.Len(s._mu_quads)
    d = {'sizes': c.And(n >= 2, W >= 1, c.Len(s.deltaz) == n, c.Len(s.altitude_profile) == n, c.Len(s._wi_quads) == G,
                        c.Len(s._pressure_profile.profile) == n, c.Len(s._temperature_profile.profile) == n),
         'mu': c.Forall(0, G, lambda m: c.Lt(0, s._mu_quads[m]))}
    mol = _mol(c, v)
    if mol is not None:
        wts, sg = (mol['weights'], mol['sigma_xsec']) if isinstance(mol, dict) else (mol.weights, mol.sigma_xsec)
        d['quadrature'] = c.And(c.Len(wts) >= 1, c.Shape(sg)[0] == n, c.Shape(sg)[1] == W, c.Shape(sg)[2] == c.Len(wts))
    return d


def _mol(c, v):
    for x in v.self.contribution_list:
        if (isinstance(x, dict) and x.get('__obj__') == 'AbsorptionContribution') or (hasattr(x, 'has') and x.has('_use_ktables')):
            return x
    return None


class _KSpec:
    def __init__(self, c, v0):
        self.c, self.v0 = c, v0
        s = v0.self
        self.n, self.W, self.G = s.nLayers, c.Len(v0.wngrid), c.Len(s._mu_quads)
        self.mol = _mol(c, v0)
        self.M = len(s.contribution_list) - (1 if self.mol is not None else 0)
        self.T = s._temperature_profile.profile
        self.PI = c.constant('PI')
        self.dz = s.deltaz
        K = c.constant('KBOLTZ')
        self.rho = lambda k: s._pressure_profile.profile[k] / (K * self.T[k])
        self.NG = c.Len(self.mol['weights'] if isinstance(self.mol, dict) else self.mol.weights) if self.mol is not None else 0

    def NM(self, lo, hi, w):
        c = self.c
        f = _c02.KAP(c)
        tot = 0.0
        for ci in range(self.M):
            tot = tot + c.Sum(lo, hi, lambda k, ci=ci: f(ci, k, w))
        return tot

    def sig(self, k, w, g):
        m = self.mol
        return (m['sigma_xsec'] if isinstance(m, dict) else m.sigma_xsec)[k, w, g]

    def wt(self, g):
        m = self.mol
        return (m['weights'] if isinstance(m, dict) else m.weights)[g]

    def SK(self, lo, hi, w, g, scale=None):
        """per-point optical depth of layers lo..hi-1 (vertical path dz, or dz*scale for the slanted surface term)"""
        c = self.c
        if scale is None:
            return c.Sum(lo, hi, lambda k: self.sig(k, w, g) * self.dz[k] * self.rho(k))
        return c.Sum(lo, hi, lambda k: self.sig(k, w, g) * (self.dz[k] * scale) * self.rho(k))

    def mu(self, m):
        return 1.0 / self.v0.self._mu_quads[m]

    def surf(self, m, w):
        c = self.c
        mu = self.mu(m)
        t = self.NM(0, self.n, w) * mu
        if self.mol is not None:
            t = t + (-c.ln(c.Sum(0, self.NG, lambda g: c.exp(-self.SK(0, self.n, w, g, scale=mu)) * self.wt(g))))
        return c.exp(-t)

    def avg(self, l, m, w, incl):
        """sum_g wt_g exp(-mu t_g), t_g the per-point depth above layer l (incl: above and including it)"""
        c = self.c
        mu = self.mu(m)
        if incl:
            return c.Sum(0, self.NG, lambda g: c.exp((-(self.SK(l, l + 1, w, g) + self.SK(l + 1, self.n, w, g))) * mu) * self.wt(g))
        return c.Sum(0, self.NG, lambda g: c.exp((-self.SK(l + 1, self.n, w, g)) * mu) * self.wt(g))

    def LTn(self, l, w):
        return self.NM(l + 1, self.n, w)

    def DTn(self, l, w):
        return self.NM(l, l + 1, w) + self.LTn(l, w)

    def ML(self, l, m, w):
        c = self.c
        x = c.exp((-self.LTn(l, w)) * self.mu(m))
        return x * self.avg(l, m, w, False) if self.mol is not None else x

    def MD(self, l, m, w):
        c = self.c
        x = c.exp((-self.DTn(l, w)) * self.mu(m))
        return x * self.avg(l, m, w, True) if self.mol is not None else x

    def PL(self, l, w):
        return self.c.func('PL', REAL, INT, REAL)(self.T[l], w) / self.PI

    def term(self, l, m, w):
        return self.PL(l, w) * (self.ML(l, m, w) - self.MD(l, m, w))

    def layers(self, m, w, upto):
        return self.c.Sum(0, upto, lambda l: self.term(l, m, w))

    def I(self, m, w, upto=None):
        return self.PL(0, w) * self.surf(m, w) + self.layers(m, w, self.n if upto is None else upto)


from pyvc.core import INT, REAL


def _ek_post(c, v0, v1, r):
    S = _KSpec(c, v0)
    I, mu, wq, tau = r
    return {'shapes': c.And(c.Shape(I)[0] == S.G, c.Shape(I)[1] == S.W, c.Shape(tau)[0] == S.n, c.Shape(tau)[1] == S.W),
            'angles': c.Forall(0, S.G, lambda m: c.And(c.Eq(mu[m, 0], 1.0 / v0.self._mu_quads[m]), c.Eq(wq[m, 0], v0.self._wi_quads[m]))),
            'intensity': c.Forall2((0, S.G), (0, S.W), lambda m, w: c.Eq(I[m, w], S.I(m, w)))}


def _ek_inv(c, v, v0, layer):
    S = _KSpec(c, v0)
    n, W, G = S.n, S.W, S.G
    d = {'locals': c.And(v.total_layers == n, v.wngrid_size == W, c.Shape(v.tau)[0] == n, c.Shape(v.tau)[1] == W, c.Shape(v.I)[0] == G,
                         c.Shape(v.I)[1] == W, c.Shape(v.layer_tau)[0] == 1, c.Shape(v.layer_tau)[1] == W, c.Shape(v.dtau)[0] == 1,
                         c.Shape(v.dtau)[1] == W, c.Shape(v._mu)[0] == G, c.Shape(v._mu)[1] == 1, c.Len(v.temperature) == n, c.Len(v.dz) == n,
                         c.Len(v.density) == n),
         'angles': c.Forall(0, G, lambda m: v._mu[m, 0] == 1.0 / v0.self._mu_quads[m]),
         'inputs': c.Forall(0, n, lambda l: c.And(v.temperature[l] == S.T[l], v.dz[l] == S.dz[l], v.density[l] == S.rho(l)))}
    plain = lambda m, w: v.I[m, w] == S.I(m, w, upto=layer)
    if getattr(c, 'assuming', False) or c.mode != 'sym' or not v.has('layer_tau_calc'):
        d['intensity'] = c.Forall2((0, G), (0, W), plain)
        return d
    L = z3.simplify(layer - 1)

    def G1(m, w):
        hints = [v.layer_tau[0, w] == S.LTn(L, w), v.dtau[0, w] == S.DTn(L, w)]
        if S.mol is not None:
            # the per-point depths returned by contribute_ktau_emission (its contract is stated over its own arguments:
            # sigma, the local density and dz arrays) are the documented ones (model profiles): Sigma-congruence per point g
            cal = types.SimpleNamespace(sigma=v.sigma, path=v.dz, density=v.density, layer=0, density_offset=0)
            own = lambda k, g: cal.sigma[k + cal.layer, w, g] * cal.path[k] * cal.density[k + cal.density_offset]
            doc = lambda k, g: S.sig(k, w, g) * S.dz[k] * S.rho(k)
            giv = [d['inputs'], c.And(L >= 0, layer <= n)]
            hints += [c.ForallH(0, S.NG, lambda g: c.hint(v.k_layer[w, g] == S.SK(L + 1, n, w, g),
                                                          c.congr(L + 1, n, lambda k: own(k, g), lambda k: doc(k, g), given=giv))),
                      c.ForallH(0, S.NG, lambda g: c.hint(v.k_dtau[w, g] == S.SK(L, L + 1, w, g) + S.SK(L + 1, n, w, g),
                                                          c.congr(L, L + 1, lambda k: own(k, g), lambda k: doc(k, g), given=giv),
                                                          c.congr(L + 1, n, lambda k: own(k, g), lambda k: doc(k, g), given=giv)))]
            hints += [c.congr(0, S.NG, lambda g: c.exp((-v.k_layer[w, g]) * v._mu[m, 0]) * S.wt(g),
                              lambda g: c.exp((-S.SK(L + 1, n, w, g)) * S.mu(m)) * S.wt(g)),
                      c.congr(0, S.NG, lambda g: c.exp((-v.k_dtau[w, g]) * v._mu[m, 0]) * S.wt(g),
                              lambda g: c.exp((-(S.SK(L, L + 1, w, g) + S.SK(L + 1, n, w, g))) * S.mu(m)) * S.wt(g))]
        Iold = v.loop_entry.I
        h1 = v.I[m, w] == Iold[m, w] + S.term(L, m, w)          # what this iteration added is the documented layer term
        h2 = Iold[m, w] == S.I(m, w, upto=L)                       # the invariant at the head of the iteration
        h3 = S.layers(m, w, layer) == S.layers(m, w, L) + S.term(L, m, w)
        hints += [h1, h2, c.pure_ground(h3, L >= 0, layer == L + 1, c.sum_step(0, layer, lambda l: S.term(l, m, w))),
                  c.pure_ground(plain(m, w), h1, h2, h3)]           # linear combination of the three facts (no quantifiers involved)
        return c.hint(plain(m, w), *hints, final_uses=1)
    d['intensity'] = c.ForallH(0, G, lambda m: c.ForallH(0, W, lambda w: G1(m, w)))
    return d


def _ek_native(c, p):
    import numpy as np
    import taurex.model.emission as em
    from taurex.model.emission import EmissionModel
    from taurex.contributions.contribution import Contribution
    from taurex.contributions.absorption import AbsorptionContribution
    s = p['self']

    class _M(EmissionModel):
        nLayers = property(lambda self: self._n)
        densityProfile = property(lambda self: self._dens)
        temperatureProfile = property(lambda self: self._T)
        altitudeProfile = property(lambda self: self._z)
        usingKTables = property(lambda self: True)
    m = _M.__new__(_M)
    for nm in ('debug', 'info', 'warning', 'error', 'critical'):
        setattr(m, nm, lambda *a, **k: None)
    m._n = s['nLayers']
    m.deltaz = np.array(s['deltaz'], dtype=float)
    m._z = np.array(s['altitude_profile'], dtype=float)
    m._T = np.array(s['_temperature_profile']['profile'], dtype=float)
    m._dens = np.array(s['_pressure_profile']['profile'], dtype=float) / (c.constant('KBOLTZ') * m._T)
    m._clamp = s['_clamp']
    m._mu_quads, m._wi_quads = np.array(s['_mu_quads'], dtype=float), np.array(s['_wi_quads'], dtype=float)
    lst = []
    for d in s['contribution_list']:
        if d.get('__obj__') == 'AbsorptionContribution':
            cc = AbsorptionContribution.__new__(AbsorptionContribution)
            cc._use_ktables = True
            cc.sigma_xsec = np.array(d['sigma_xsec'], dtype=float)
            cc.weights = np.array(d['weights'], dtype=float)
            cc._nlayers, cc._ngrid = cc.sigma_xsec.shape[0], cc.sigma_xsec.shape[1]
        else:
            cc = Contribution.__new__(Contribution)
            cc.sigma_xsec = np.array(d['sigma'], dtype=float)
            cc._nlayers, cc._ngrid = cc.sigma_xsec.shape
        for nm in ('debug', 'info', 'warning', 'error', 'critical'):
            setattr(cc, nm, lambda *a, **k: None)
        lst.append(cc)
    m.contribution_list = lst
    I, mu, w, tau = m.evaluate_emission_ktables(np.array(p['wngrid'], dtype=float), False)
    return (np.asarray(I), np.asarray(mu), np.asarray(w), np.asarray(tau)), p


def _ek_gen(rng):
    M, mol, G = rng.randint(0, 1), rng.random() < 0.8, rng.randint(1, 2)
    n, W, NG = rng.randint(2, 4), rng.randint(1, 3), rng.randint(1, 3)
    dz = [rng.uniform(1e3, 1e5) for _ in range(n)]
    z = [0.0]
    for i in range(1, n):
        z.append(z[-1] + 0.5 * (dz[i - 1] + dz[i]))
    wts = [rng.uniform(0.1, 1) for _ in range(NG)]
    d = dict(M=M, mol=mol, G=G, n=n, W=W, NG=NG, clamp=10.0, dz=dz, z=z, muq=sorted(rng.uniform(0.05, 0.95) for _ in range(G)), wq=[1.0 / G] * G,
             P=sorted((10 ** rng.uniform(0, 5) for _ in range(n)), reverse=True), T=[rng.uniform(300, 2500) for _ in range(n)],
             wngrid=[1000.0 * (i + 1) for i in range(W)], wts=[x / sum(wts) for x in wts],
             ksigma=[[[10 ** rng.uniform(-31, -25) for _ in range(NG)] for _ in range(W)] for _ in range(n)])
    for k in range(M):
        d['sigma%d' % k] = [[10 ** rng.uniform(-31, -25) for _ in range(W)] for _ in range(n)]
    if rng.random() < 0.35:
        # optically thick regime: every layer saturated at every wavenumber and quadrature point (where cut-offs would act)
        d['ksigma'] = [[[10 ** rng.uniform(-25, -22) for _ in range(NG)] for _ in range(W)] for _ in range(n)]
        if rng.random() < 0.5:
            for k in range(M):
                d['sigma%d' % k] = [[10 ** rng.uniform(-25, -22) for _ in range(W)] for _ in range(n)]
    return d


_EK_CASES = [dict(M=M, mol=mol, G=G) for M in (0, 1) for mol in (True, False) for G in (1, 2)]
EKT = Unit(['C20', 'C02'], EMK + 'evaluate_emission_ktables', _ek_params, pre=_ek_pre, post=_ek_post, invariants={1: _ek_inv, 2: _ek_inv, 3: _ek_inv},
           abstract={'Contribution.contribute': _c02._k2e, 'call:black_body': _c02._abs_bb}, cases=_EK_CASES,
           inline=['densityProfile', 'temperatureProfile', 'pressureProfile', 'altitudeProfile', 'contribute'], native=_ek_native, gen=_ek_gen,
           bounds=[dict(n=2, W=1, NG=1), dict(n=2, W=1, NG=2)], short='EmissionModel.evaluate_emission_ktables', timeout_ms=30000,
           doc='emission integral in k-table mode: molecular factor = weight-averaged exponential of the per-point depths (contribute_ktau / '
               'contribute_ktau_emission by contract), other contributions as in C02; layer thicknesses = model.deltaz; 0..1 other '
               'contributions, with/without a k-table contribution, 1..2 angles at code level')


def _deg_emission(c):
    """degenerate coefficients and weights summing to one: sum_g wt_g x = x  (so every weight-averaged exponential of the
    k-table emission integral is the plain exponential of the cross-section integral)"""
    I, R = z3.IntSort(), z3.RealSort()
    wt = z3.Function('wt', I, R)
    x = z3.Real('x')
    m, G = z3.Ints('m G')
    A = lambda n: c.Sum(0, n, lambda g: x * wt(g))
    B = lambda n: c.Sum(0, n, lambda g: wt(g))
    mm = z3.Int('mm')
    return [('base', [], A(0) == x * B(0)), ('step', [m >= 0, A(m) == x * B(m)], A(m + 1) == x * B(m + 1)),
            ('final', [z3.ForAll([mm], z3.Implies(mm >= 0, A(mm) == x * B(mm))), G >= 0, B(G) == 1], A(G) == x)]


Lemma('C20', 'degenerate_emission_factor', _deg_emission, doc='sum_g wt_g exp(-mu t) = exp(-mu t) when the per-point depths coincide and sum wt = 1')
