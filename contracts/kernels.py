"""Shared kernel contracts K1 (DESIGN 6): contribute_tau, contribute_cia, Contribution.contribute."""
import random
import z3
from pyvc.unit import Unit, ObjSpec


# ---------------------------------------------------------------- K1  contribute_tau
def _k1_params(c):
    rs, cs = c.int('rows_sigma'), c.int('cols_sigma')
    rt, ct = c.int('rows_tau'), c.int('cols_tau')
    return dict(startK=c.int('startK'), endK=c.int('endK'), density_offset=c.int('density_offset'),
                sigma=c.array('sigma', (rs, cs)), density=c.array('density', (c.int('len_density'),)),
                path=c.array('path', (c.int('len_path'),)), nlayers=c.int('nlayers'), ngrid=c.int('ngrid'),
                layer=c.int('layer'), tau=c.array('tau', (rt, ct)))


def k1_pre(c, v):
    rs, cs = c.Shape(v.sigma)
    rt, ct = c.Shape(v.tau)
    return {
        'sizes': c.And(rs >= 0, cs >= 0, rt >= 0, ct >= 0, c.Len(v.density) >= 0, c.Len(v.path) >= 0),
        'startK': v.startK >= 0,
        'layer': c.And(0 <= v.layer, v.layer < rt),
        'ngrid': c.And(0 <= v.ngrid, v.ngrid <= ct, v.ngrid <= cs),
        'range': c.Implies(v.startK < v.endK,
                           c.And(v.endK + v.layer <= rs, v.endK + v.density_offset <= c.Len(v.density),
                                 v.startK + v.density_offset >= 0, v.endK <= c.Len(v.path))),
    }


def k1_term(c, v, k, w, power=1):
    d = v.density[k + v.density_offset]
    return v.sigma[k + v.layer, w] * v.path[k] * (d if power == 1 else d * d)


def k1_post(power):
    def post(c, v0, v1, ret):
        rt, ct = c.Shape(v0.tau)
        hi = c.Max(v0.startK, v0.endK)
        return {
            'sum': c.Forall(0, v0.ngrid, lambda w: c.Eq(
                v1.tau[v0.layer, w],
                v0.tau[v0.layer, w] + c.Sum(v0.startK, hi, lambda k: k1_term(c, v0, k, w, power)))),
            'frame': c.Forall2((0, rt), (0, ct), lambda r, w: c.Implies(
                c.Not(c.And(r == v0.layer, w < v0.ngrid)), c.Eq(v1.tau[r, w], v0.tau[r, w]))),
        }
    return post


def k1_invs(power):
    def outer(c, v, v0, k):
        rt, ct = c.Shape(v0.tau)
        return {
            'acc': c.Forall(0, v0.ngrid, lambda w: v.tau[v0.layer, w] == v0.tau[v0.layer, w]
                            + c.Sum(v0.startK, k, lambda j: k1_term(c, v0, j, w, power))),
            'frame': c.Forall2((0, rt), (0, ct), lambda r, w: c.Implies(
                c.Not(c.And(r == v0.layer, w < v0.ngrid)), v.tau[r, w] == v0.tau[r, w])),
        }

    def inner(c, v, v0, wn):
        rt, ct = c.Shape(v0.tau)
        k = v.k
        d = v0.density[k + v0.density_offset]
        return {
            'locals': c.And(v._path == v0.path[k], v._density == d),
            'done': c.Forall(0, wn, lambda w: v.tau[v0.layer, w] == v0.tau[v0.layer, w]
                             + c.Sum(v0.startK, k + 1, lambda j: k1_term(c, v0, j, w, power))),
            'todo': c.Forall(wn, v0.ngrid, lambda w: v.tau[v0.layer, w] == v0.tau[v0.layer, w]
                             + c.Sum(v0.startK, k, lambda j: k1_term(c, v0, j, w, power))),
            'frame': c.Forall2((0, rt), (0, ct), lambda r, w: c.Implies(
                c.Not(c.And(r == v0.layer, w < v0.ngrid)), v.tau[r, w] == v0.tau[r, w])),
        }
    return {0: outer, 1: inner}


def _k1_gen(rng):
    n = rng.randint(1, 4)
    g = rng.randint(1, 3)
    layer = rng.randint(0, n - 1)
    endK = n - layer
    return dict(rows_sigma=n, cols_sigma=g, rows_tau=n, cols_tau=g, startK=0, endK=endK, density_offset=layer,
                len_density=n, len_path=endK, nlayers=n, ngrid=g, layer=layer,
                sigma=[[rng.uniform(0, 2) for _ in range(g)] for _ in range(n)],
                density=[rng.uniform(0, 3) for _ in range(n)], path=[rng.uniform(0, 5) for _ in range(endK)],
                tau=[[rng.uniform(0, 1) for _ in range(g)] for _ in range(n)])


_K1_BOUNDS = [dict(rows_sigma=3, cols_sigma=2, rows_tau=3, cols_tau=2, startK=0, endK=2, density_offset=1,
                   len_density=3, len_path=2, nlayers=3, ngrid=2, layer=1),
              dict(rows_sigma=3, cols_sigma=2, rows_tau=3, cols_tau=2, startK=1, endK=3, density_offset=0,
                   len_density=3, len_path=3, nlayers=3, ngrid=2, layer=0)]

def _k1_native(modname, fname):
    def native(c, p):
        """the compiled (numba) kernel itself on concrete arrays; tau is updated in place"""
        import importlib
        import numpy as np
        f = getattr(importlib.import_module(modname), fname)
        tau = np.array(p['tau'], dtype=np.float64).reshape(p['rows_tau'] if 'rows_tau' in p else len(p['tau']), -1)
        sigma = np.array(p['sigma'], dtype=np.float64)
        f(int(p['startK']), int(p['endK']), int(p['density_offset']), sigma, np.array(p['density'], dtype=np.float64),
          np.array(p['path'], dtype=np.float64), int(p['nlayers']), int(p['ngrid']), int(p['layer']), tau)
        return None, dict(p, tau=tau)
    return native


K1 = Unit(['C01', 'C03', 'C13'], 'taurex.contributions.contribution:contribute_tau', _k1_params, pre=k1_pre,
          post=k1_post(1), frame=['tau'], invariants=k1_invs(1), bounds=_K1_BOUNDS, gen=_k1_gen,
          native=_k1_native('taurex.contributions.contribution', 'contribute_tau'),
          doc='K1: tau[layer,w] += sum_k sigma[k+layer,w]*path[k]*density[k+offset]; nothing else written')


KCIA = Unit(['C03', 'C01'], 'taurex.contributions.cia:contribute_cia', _k1_params, pre=k1_pre, post=k1_post(2),
            frame=['tau'], invariants=k1_invs(2), bounds=_K1_BOUNDS, gen=_k1_gen, native=_k1_native('taurex.contributions.cia', 'contribute_cia'),
            doc='CIA kernel: as K1 with density squared')


# ---------------------------------------------------------------- Contribution.contribute -> K1
def _cc_params(c):
    n, g = c.int('nlayers_'), c.int('ngrid_')
    rs, cs = c.int('rows_sigma'), c.int('cols_sigma')
    rt, ct = c.int('rows_tau'), c.int('cols_tau')
    return dict(self=ObjSpec('Contribution', sigma_xsec=c.array('sigma', (rs, cs)), _nlayers=n, _ngrid=g),
                model=None, start_layer=c.int('startK'), end_layer=c.int('endK'),
                density_offset=c.int('density_offset'), layer=c.int('layer'),
                density=c.array('density', (c.int('len_density'),)), tau=c.array('tau', (rt, ct)),
                path_length=c.array('path', (c.int('len_path'),)))


class _K1View:
    """adapter: present Contribution.contribute's arguments under K1's parameter names"""

    def __init__(self, v):
        self.startK, self.endK, self.density_offset = v.start_layer, v.end_layer, v.density_offset
        self.sigma, self.density, self.path = v.self.sigma_xsec, v.density, v.path_length
        self.nlayers, self.ngrid, self.layer, self.tau = v.self._nlayers, v.self._ngrid, v.layer, v.tau


def cc_pre(c, v):
    return k1_pre(c, _K1View(v))


def cc_post(c, v0, v1, r):
    return k1_post(1)(c, _K1View(v0), _K1View(v1), r)


def _cc_native(c, p):
    import numpy as np
    from taurex.contributions.contribution import Contribution
    o = Contribution.__new__(Contribution)
    o.sigma_xsec = np.array(p['self']['sigma_xsec'], dtype=float)
    o._nlayers, o._ngrid = p['self']['_nlayers'], p['self']['_ngrid']
    o.debug = lambda *a, **k: None
    o.contribute(None, p['start_layer'], p['end_layer'], p['density_offset'], p['layer'], p['density'], p['tau'],
                 path_length=p['path_length'])
    return None, p


def _cc_gen(rng):
    d = _k1_gen(rng)
    d.update(nlayers_=d['nlayers'], ngrid_=d['ngrid'])
    return d


CC = Unit(['C01', 'C03'], 'taurex.contributions.contribution:Contribution.contribute', _cc_params, pre=cc_pre,
          post=cc_post, frame=['tau'], native=_cc_native, gen=_cc_gen,
          bounds=[dict(b, nlayers_=b['nlayers'], ngrid_=b['ngrid']) for b in _K1_BOUNDS],
          doc='K2 refinement: base contribute adds K1 with sigma = self.sigma_xsec, ngrid = self._ngrid')


# ---------------------------------------------------------------- Sigma-congruence (the rule behind Ctx.congr)
from pyvc.unit import Lemma


def _sum_congruence(c):
    I, R = z3.IntSort(), z3.RealSort()
    f, g = z3.Function('f', I, R), z3.Function('g', I, R)
    a, m, q = z3.Ints('a m q')
    F = lambda lo, hi: c.Sum(lo, hi, lambda k: f(k))
    G = lambda lo, hi: c.Sum(lo, hi, lambda k: g(k))
    agree = lambda lo, hi: z3.ForAll([q], z3.Implies(z3.And(lo <= q, q < hi), f(q) == g(q)))
    return [('base', [], F(a, a) == G(a, a)),
            ('step', [a <= m, agree(a, m + 1), z3.Implies(agree(a, m), F(a, m) == G(a, m))], F(a, m + 1) == G(a, m + 1))]


Lemma(['C01', 'C02', 'C03', 'C20'], 'sum_congruence', _sum_congruence,
      doc='sums of pointwise equal terms are equal (induction): justifies the congruence steps used in hint chains')


def _cumsum_nonneg(c):
    I, R = z3.IntSort(), z3.RealSort()
    a = z3.Function('a', I, R)
    m, k, q = z3.Ints('m k q')
    S = lambda i: c.Sum(0, i, lambda j: a(j))
    pos = z3.ForAll([q], z3.Implies(q >= 0, a(q) >= 0))
    return [('nonneg.base', [pos], S(0) >= 0), ('nonneg.step', [pos, m >= 0, S(m) >= 0], z3.And(S(m + 1) >= 0, S(m + 1) >= S(m))),
            ('dominates.base', [pos, k >= 0, z3.ForAll([q], z3.Implies(q >= 0, S(q) >= 0))], S(k + 1) >= a(k)),
            ('dominates.step', [pos, k >= 0, m > k, S(m) >= a(k)], S(m + 1) >= a(k))]


Lemma(['C09', 'C01'], 'cumsum_of_nonnegative', _cumsum_nonneg,
      doc='partial sums of non-negative terms are non-negative, non-decreasing and dominate each term: the guarded '
          'fact offered by the cumsum model')


def _sum_between(c):
    I, R = z3.IntSort(), z3.RealSort()
    f = z3.Function('f', I, R)
    L, H = z3.Reals('L H')
    a, m, q = z3.Ints('a m q')
    F = lambda lo, hi: c.Sum(lo, hi, lambda k: f(k))
    inside = lambda lo, hi: z3.ForAll([q], z3.Implies(z3.And(lo <= q, q < hi), z3.And(L <= f(q), f(q) <= H)))
    P = lambda lo, hi: z3.And((hi - lo) * L <= F(lo, hi), F(lo, hi) <= (hi - lo) * H)
    return [('base', [], P(a, a)),
            ('step', [a <= m, inside(a, m + 1), z3.Implies(inside(a, m), P(a, m))], P(a, m + 1))]


Lemma(['C10', 'C12', 'C05'], 'sum_between', _sum_between,
      doc='a sum of terms that all lie in [L, H] lies in [(hi-lo) L, (hi-lo) H] (induction): justifies the bounding steps '
          '(Ctx.sum_between) used in hint chains')


def _sum_scaling(c):
    I, R = z3.IntSort(), z3.RealSort()
    f = z3.Function('f', I, R)
    s = z3.Real('s')
    a, m = z3.Ints('a m')
    F = lambda lo, hi: c.Sum(lo, hi, lambda k: f(k))
    G = lambda lo, hi: c.Sum(lo, hi, lambda k: s * f(k))
    return [('base', [], G(a, a) == s * F(a, a)), ('step', [a <= m, G(a, m) == s * F(a, m)], G(a, m + 1) == s * F(a, m + 1))]


Lemma(['C12', 'C10', 'C05'], 'sum_scaling', _sum_scaling, doc='a constant factor moves out of a sum (induction): justifies Ctx.sum_scale')


def _sum_dominates(c):
    I, R = z3.IntSort(), z3.RealSort()
    f = z3.Function('f', I, R)
    a, m, k, q = z3.Ints('a m k q')
    F = lambda lo, hi: c.Sum(lo, hi, lambda j: f(j))
    pos = lambda lo, hi: z3.ForAll([q], z3.Implies(z3.And(lo <= q, q < hi), f(q) >= 0))
    return [('nonneg.base', [], F(a, a) >= 0), ('nonneg.step', [a <= m, pos(a, m + 1), z3.Implies(pos(a, m), F(a, m) >= 0)], F(a, m + 1) >= 0),
            ('dominates.base', [a <= k, pos(a, k + 1), F(a, k) >= 0], F(a, k + 1) >= f(k)),
            ('dominates.step', [a <= k, k < m, pos(a, m + 1), z3.Implies(pos(a, m), F(a, m) >= f(k))], F(a, m + 1) >= f(k))]


Lemma(['C12', 'C10', 'C05'], 'sum_dominates', _sum_dominates,
      doc='a sum of non-negative terms is non-negative and at least each of its terms (induction): justifies Ctx.sum_dominates')


def _incr_bijection(c):
    """an increasing map of {0..n-1} into itself is the identity (two inductions): the sorting permutation of a strictly
    increasing array is the identity -- the fact offered by the argsort model for already sorted input"""
    p = z3.Function('p', z3.IntSort(), z3.IntSort())
    n, m, q, r = z3.Ints('n m q r')
    rng = z3.ForAll([q], z3.Implies(z3.And(0 <= q, q < n), z3.And(0 <= p(q), p(q) < n)))
    mono = z3.ForAll([q, r], z3.Implies(z3.And(0 <= q, q < r, r < n), p(q) < p(r)))
    return [('lower.base', [rng, n > 0], p(0) >= 0),
            ('lower.step', [rng, mono, 0 <= m, m + 1 < n, p(m) >= m], p(m + 1) >= m + 1),
            ('upper.base', [rng, n > 0], p(n - 1) <= n - 1),
            ('upper.step', [rng, mono, 0 <= m, m + 1 < n, p(m + 1) <= m + 1], p(m) <= m),
            ('monotone_from_sorting', [], z3.BoolVal(True))]


Lemma(['C05', 'C17'], 'increasing_bijection_is_identity', _incr_bijection,
      doc='justifies the argsort model fact: for strictly increasing keys the sorting permutation is the identity')
