"""C04 -- opacity interpolation in temperature and pressure is sound everywhere.

Functions under contract: util.find_closest_pair, the four interpolation kernels bound at the end of
util/math.py (resolved through the module's alias table on every run), InterpolatingOpacity.
find_closest_index / interp_temp_only / interp_pressure_only / interp_bilinear_grid / compute_opacity.
"""
import z3
from pyvc.unit import Unit, ObjSpec, Lemma


def _sorted_strict(c, a):
    n = c.Len(a)
    return c.Forall(0, n, lambda i: c.Forall(0, n, lambda j: c.Implies(i < j, c.Lt(a[i], a[j]))))


# ------------------------------------------------------------------ find_closest_pair
def _fcp_params(c):
    n = c.int('n')
    return dict(arr=c.array('arr', (n,)), value=c.real('value'))


def fcp_pre(c, v):
    return {'len': c.Len(v.arr) >= 2, 'sorted': _sorted_strict(c, v.arr)}


def fcp_post(c, v0, v1, r):
    n = c.Len(v0.arr)
    left, right = r[0], r[1]
    a, x = v0.arr, v0.value
    return {
        'adjacent': c.And(right == left + 1, 0 <= left, right <= n - 1),
        'bracket': c.Implies(c.And(c.Le(a[0], x), c.Le(x, a[n - 1])), c.And(c.Le(a[left], x), c.Le(x, a[right]))),
        'below': c.Implies(c.Lt(x, a[0]), c.And(left == 0, right == 1)),
        'above': c.Implies(c.Lt(a[n - 1], x), c.And(left == n - 2, right == n - 1)),
    }


def _fcp_gen(rng):
    n = rng.randint(2, 6)
    xs = sorted(rng.sample(range(0, 40), n))
    v = rng.choice([rng.uniform(-5, 45), float(rng.choice(xs))])
    return dict(n=n, arr=[float(x) for x in xs], value=v)


def _fcp_native(c, p):
    import numpy as np
    from taurex.util.util import find_closest_pair
    l, r = find_closest_pair(np.array(p['arr'], dtype=float), p['value'])
    return (int(l), int(r)), p


def _fcp_result(ex, st, v0):
    return (ex.c.fresh('left'), ex.c.fresh('right'))


FCP = Unit('C04', 'taurex.util.util:find_closest_pair', _fcp_params, pre=fcp_pre, post=fcp_post, gen=_fcp_gen,
           native=_fcp_native, result=_fcp_result, bounds=[dict(n=3), dict(n=2)], safety=('index', 'div', 'sorted'),
           doc='bracketing pair clamped to [0,n-1] for strictly increasing grids of length >= 2')


# ------------------------------------------------------------------ kernels
def _vec(c, name, n):
    return c.array(name, (n,))


def _lin_params(c):
    n = c.int('N')
    return dict(x11=_vec(c, 'x11', n), x12=_vec(c, 'x12', n), P=c.real('P'), Pmin=c.real('Pmin'), Pmax=c.real('Pmax'))


def lin_pre(c, v):
    return {'len': c.And(c.Len(v.x11) >= 0, c.Len(v.x12) == c.Len(v.x11)),
            'order': c.Lt(v.Pmin, v.Pmax),
            'inside': c.And(c.Le(v.Pmin, v.P), c.Le(v.P, v.Pmax))}


def lin_post(c, v0, v1, r):
    n = c.Len(v0.x11)
    s = (v0.P - v0.Pmin) / (v0.Pmax - v0.Pmin)
    return {
        'len': c.Len(r) == n,
        'form': c.Forall(0, n, lambda i: c.Eq(r[i], v0.x11[i] - s * (v0.x11[i] - v0.x12[i]))),
        'between': c.Forall(0, n, lambda i: c.And(c.Le(c.Min(v0.x11[i], v0.x12[i]), r[i]),
                                                  c.Le(r[i], c.Max(v0.x11[i], v0.x12[i])))),
        'node_lo': c.Implies(c.Eq(v0.P, v0.Pmin), c.Forall(0, n, lambda i: c.Eq(r[i], v0.x11[i]))),
        'node_hi': c.Implies(c.Eq(v0.P, v0.Pmax), c.Forall(0, n, lambda i: c.Eq(r[i], v0.x12[i]))),
    }


def lin_inv(c, v, v0, k):
    s = (v0.P - v0.Pmin) / (v0.Pmax - v0.Pmin)
    return {'done': c.Forall(0, k, lambda i: v.out[i] == v0.x11[i] - s * (v0.x11[i] - v0.x12[i])),
            'locals': c.And(v.N == c.Len(v0.x11), v.scale == s, c.Len(v.out) == c.Len(v0.x11))}


def _vec_result(name):
    def result(ex, st, v0):
        return st.alloc(ex.c, ex.c.fresh_array('r_' + name, (ex.c.Len(getattr(v0, name)),)))
    return result


def _lin_gen(rng):
    n = rng.randint(1, 4)
    lo = rng.uniform(-3, 3)
    hi = lo + rng.uniform(0.1, 4)
    P = rng.choice([lo, hi, rng.uniform(lo, hi)])
    return dict(N=n, x11=[rng.uniform(0, 1) for _ in range(n)], x12=[rng.uniform(0, 1) for _ in range(n)],
                P=P, Pmin=lo, Pmax=hi)


def _call_np(modname, fname, order):
    def native(c, p):
        import importlib
        import numpy as np
        f = getattr(importlib.import_module(modname), fname)
        args = [np.array(p[k], dtype=float) if isinstance(p[k], (list, np.ndarray)) else p[k] for k in order]
        return f(*args), p
    return native


LIN = Unit('C04', 'taurex.util.math:interp_lin_only', _lin_params, pre=lin_pre, post=lin_post,
           invariants={0: lin_inv}, result=_vec_result('x11'), gen=_lin_gen, bounds=[dict(N=2)],
           native=_call_np('taurex.util.math', 'interp_lin_only', ['x11', 'x12', 'P', 'Pmin', 'Pmax']),
           short='interp_lin_only', doc='1-D linear interpolation kernel (alias resolved at run time)')


def _bil_params(c):
    n = c.int('N')
    d = dict(x11=_vec(c, 'x11', n), x12=_vec(c, 'x12', n), x21=_vec(c, 'x21', n), x22=_vec(c, 'x22', n))
    d.update(T=c.real('T'), Tmin=c.real('Tmin'), Tmax=c.real('Tmax'), P=c.real('P'), Pmin=c.real('Pmin'),
             Pmax=c.real('Pmax'))
    return d


def bil_pre(c, v):
    n = c.Len(v.x11)
    return {'len': c.And(n >= 0, c.Len(v.x12) == n, c.Len(v.x21) == n, c.Len(v.x22) == n),
            'order': c.And(c.Lt(v.Pmin, v.Pmax), c.Lt(v.Tmin, v.Tmax)),
            'inside': c.And(c.Le(v.Pmin, v.P), c.Le(v.P, v.Pmax), c.Le(v.Tmin, v.T), c.Le(v.T, v.Tmax))}


def _ps(v):
    return (v.P - v.Pmin) / (v.Pmax - v.Pmin)


def _ts(v):
    return (v.T - v.Tmin) / (v.Tmax - v.Tmin)


def bil_form(c, v, i):
    ps = (v.P - v.Pmin) / (v.Pmax - v.Pmin)
    ts = (v.T - v.Tmin) / (v.Tmax - v.Tmin)
    # bilinear interpolation in (T, P): x11=(Pmin,Tmin) x12=(Pmin,Tmax) x21=(Pmax,Tmin) x22=(Pmax,Tmax)
    return (1 - ps) * (1 - ts) * v.x11[i] + (1 - ps) * ts * v.x12[i] + ps * (1 - ts) * v.x21[i] + ps * ts * v.x22[i]


def bil_post(c, v0, v1, r):
    n = c.Len(v0.x11)

    def mn(i):
        return c.Min(c.Min(v0.x11[i], v0.x12[i]), c.Min(v0.x21[i], v0.x22[i]))

    def mx(i):
        return c.Max(c.Max(v0.x11[i], v0.x12[i]), c.Max(v0.x21[i], v0.x22[i]))
    return {
        'len': c.Len(r) == n,
        'form': c.Forall(0, n, lambda i: c.Eq(r[i], bil_form(c, v0, i))),
        'between': c.hint(c.Forall(0, n, lambda i: c.And(c.Le(mn(i), r[i]), c.Le(r[i], mx(i)))),
                          c.And(0 <= _ps(v0), _ps(v0) <= 1, 0 <= _ts(v0), _ts(v0) <= 1),
                          c.And((1 - _ps(v0)) * (1 - _ts(v0)) >= 0, (1 - _ps(v0)) * _ts(v0) >= 0,
                                _ps(v0) * (1 - _ts(v0)) >= 0, _ps(v0) * _ts(v0) >= 0)),
        'node11': c.Implies(c.And(c.Eq(v0.P, v0.Pmin), c.Eq(v0.T, v0.Tmin)),
                            c.Forall(0, n, lambda i: c.Eq(r[i], v0.x11[i]))),
        'node22': c.Implies(c.And(c.Eq(v0.P, v0.Pmax), c.Eq(v0.T, v0.Tmax)),
                            c.Forall(0, n, lambda i: c.Eq(r[i], v0.x22[i]))),
    }


def bil_inv(c, v, v0, k):
    ps = (v0.P - v0.Pmin) / (v0.Pmax - v0.Pmin)
    ts = (v0.T - v0.Tmin) / (v0.Tmax - v0.Tmin)
    return {'done': c.Forall(0, k, lambda i: v.out[i] == bil_form(c, v0, i)),
            'locals': c.And(v.N == c.Len(v0.x11), v.Pscale == ps, v.Tscale == ts, c.Len(v.out) == c.Len(v0.x11))}


def _bil_gen(rng):
    n = rng.randint(1, 3)
    lo, tlo = rng.uniform(-3, 3), rng.uniform(100, 1000)
    hi, thi = lo + rng.uniform(0.1, 4), tlo + rng.uniform(10, 500)
    P = rng.choice([lo, hi, rng.uniform(lo, hi)])
    T = rng.choice([tlo, thi, rng.uniform(tlo, thi)])
    d = {k: [rng.uniform(1e-3, 1) for _ in range(n)] for k in ('x11', 'x12', 'x21', 'x22')}
    d.update(N=n, P=P, Pmin=lo, Pmax=hi, T=T, Tmin=tlo, Tmax=thi)
    return d


_BIL_ORDER = ['x11', 'x12', 'x21', 'x22', 'T', 'Tmin', 'Tmax', 'P', 'Pmin', 'Pmax']
BIL = Unit('C04', 'taurex.util.math:intepr_bilin', _bil_params, pre=bil_pre, post=bil_post,
           invariants={0: bil_inv}, result=_vec_result('x11'), gen=_bil_gen, bounds=[dict(N=1)],
           native=_call_np('taurex.util.math', 'intepr_bilin', _BIL_ORDER), short='intepr_bilin',
           doc='bilinear kernel = convex combination of the four corner values inside the cell')


# exp kernels: positivity of the table values is part of the precondition (exp mode needs logs)
def _exp_params(c):
    n = c.int('N')
    return dict(x11=_vec(c, 'x11', n), x12=_vec(c, 'x12', n), T=c.real('T'), Tmin=c.real('Tmin'), Tmax=c.real('Tmax'))


def exp_pre(c, v):
    n = c.Len(v.x11)
    return {'len': c.And(n >= 0, c.Len(v.x12) == n),
            'order': c.And(c.Lt(0, v.Tmin), c.Lt(v.Tmin, v.Tmax)),
            'inside': c.And(c.Le(v.Tmin, v.T), c.Le(v.T, v.Tmax)),
            'positive': c.Forall(0, n, lambda i: c.And(c.Lt(0, v.x11[i]), c.Lt(0, v.x12[i])))}


def _s_exp(v):
    return v.Tmax * (v.T - v.Tmin) / (v.T * (v.Tmax - v.Tmin))


def _geo_chain(c, a, b, s, res, extra=()):
    """lemma chain for  res == a*exp(-s*ln(a/b)),  0<=s<=1, a,b>0  ==>  min(a,b) <= res <= max(a,b)"""
    L = c.ln(a / b)
    return list(extra) + [
        c.Lt(0, a / b),
        c.Eq(c.exp(L), a / b),
        c.Eq(c.exp(-L) * c.exp(L), 1),
        c.And(c.Eq(c.exp(L), a / b), c.Eq(c.exp(-L), b / a)),
        c.Eq(res, a * c.exp(-s * L)),
        c.And(c.Implies(L >= 0, c.And(-L <= -s * L, -s * L <= 0)),
              c.Implies(L <= 0, c.And(-L >= -s * L, -s * L >= 0))),
        c.And(c.Implies(L >= 0, c.And(c.exp(-L) <= c.exp(-s * L), c.exp(-s * L) <= 1)),
              c.Implies(L <= 0, c.And(c.exp(-L) >= c.exp(-s * L), c.exp(-s * L) >= 1))),
        (L >= 0) == (a >= b),
        c.And(c.Min(a, b) <= res, res <= c.Max(a, b)),
    ]


def exp_post(c, v0, v1, r):
    n = c.Len(v0.x11)
    s = _s_exp(v0)
    srange = c.And(0 <= s, s <= 1)

    def form(i):
        return c.Eq(r[i], v0.x11[i] * c.exp(-s * c.ln(v0.x11[i] / v0.x12[i])))

    def between(i):
        return c.hint(c.And(c.Le(c.Min(v0.x11[i], v0.x12[i]), r[i]), c.Le(r[i], c.Max(v0.x11[i], v0.x12[i]))),
                      *_geo_chain(c, v0.x11[i], v0.x12[i], s, r[i], [srange]))

    def node_hi(i):
        L = c.ln(v0.x11[i] / v0.x12[i])
        return c.hint(c.Implies(c.Eq(v0.T, v0.Tmax), c.Eq(r[i], v0.x12[i])),
                      c.And(c.Eq(c.exp(L), v0.x11[i] / v0.x12[i]), c.Eq(c.exp(-L), v0.x12[i] / v0.x11[i])),
                      form(i), c.Implies(c.Eq(v0.T, v0.Tmax), s == 1))
    return {
        'len': c.Len(r) == n,
        'form': c.ForallH(0, n, form),                 # x11^(1-s) * x12^s written with exp/ln
        'between': c.ForallH(0, n, between),
        'node_lo': c.Implies(c.Eq(v0.T, v0.Tmin), c.Forall(0, n, lambda i: c.Eq(r[i], v0.x11[i]))),
        'node_hi': c.ForallH(0, n, node_hi),
    }


def _exp_gen(rng):
    n = rng.randint(1, 3)
    tlo = rng.uniform(100, 1000)
    thi = tlo + rng.uniform(10, 500)
    T = rng.choice([tlo, thi, rng.uniform(tlo, thi)])
    base = [10 ** rng.uniform(-40, -2) for _ in range(n)]
    return dict(N=n, x11=[b * 10 ** rng.uniform(0, 2) for b in base], x12=[b * 10 ** rng.uniform(0, 2) for b in base],
                T=T, Tmin=tlo, Tmax=thi)


EXP1 = Unit('C04', 'taurex.util.math:interp_exp_only', _exp_params, pre=exp_pre, post=exp_post,
            result=_vec_result('x11'), gen=_exp_gen, bounds=[dict(N=1)], safety=('index',),
            native=_call_np('taurex.util.math', 'interp_exp_only', ['x11', 'x12', 'T', 'Tmin', 'Tmax']),
            short='interp_exp_only', doc='exp-in-1/T kernel: x11^(1-s) x12^s, s = Tmax(T-Tmin)/(T(Tmax-Tmin)) in [0,1]')


def expl_pre(c, v):
    n = c.Len(v.x11)
    d = bil_pre(c, v)
    d['order'] = c.And(d['order'], c.Lt(0, v.Tmin))
    d['positive'] = c.Forall(0, n, lambda i: c.And(c.Lt(0, v.x11[i]), c.Lt(0, v.x12[i]), c.Lt(0, v.x21[i]),
                                                    c.Lt(0, v.x22[i])))
    return d


def expl_post(c, v0, v1, r):
    n = c.Len(v0.x11)
    s = _s_exp(v0)
    ps = _ps(v0)
    dP = v0.Pmax - v0.Pmin
    rng = c.And(0 <= ps, ps <= 1, 0 <= s, s <= 1)

    def parts(i):
        A = v0.x11[i] - ps * (v0.x11[i] - v0.x21[i])          # linear in log P at Tmin
        B = v0.x12[i] - ps * (v0.x12[i] - v0.x22[i])          # linear in log P at Tmax
        N1 = v0.x11[i] * dP - (v0.P - v0.Pmin) * (v0.x11[i] - v0.x21[i])
        N2 = v0.x12[i] * dP - (v0.P - v0.Pmin) * (v0.x12[i] - v0.x22[i])
        return A, B, N1, N2

    def chain(i):
        """-> (defs, lemmas) establishing r[i] == A*exp(-s*ln(A/B)) with A, B, N1, N2 kept atomic"""
        A, B, N1, N2 = parts(i)
        a, da = c.define('A', A)
        b, db = c.define('B', B)
        n1, d1 = c.define('N1', N1)
        n2, d2 = c.define('N2', N2)
        L = c.ln(a / b)
        lem = [rng,
               c.And(c.Min(v0.x11[i], v0.x21[i]) <= A, A <= c.Max(v0.x11[i], v0.x21[i]),
                     c.Min(v0.x12[i], v0.x22[i]) <= B, B <= c.Max(v0.x12[i], v0.x22[i])),
               c.And(a > 0, b > 0),
               c.And(N1 == A * dP, N2 == B * dP),
               c.And(n1 == a * dP, n2 == b * dP, dP > 0),
               c.And(n1 > 0, n2 > 0),
               n1 / n2 == a / b,
               c.ln(n1 / n2) == L,
               v0.Tmax * (-v0.T + v0.Tmin) * c.ln(n1 / n2) / (v0.T * (v0.Tmax - v0.Tmin)) == -s * L,
               n1 / dP == a,
               c.Eq(r[i], a * c.exp(-s * L))]
        return [da, db, d1, d2], lem, (a, b)

    def form(i):
        A, B, N1, N2 = parts(i)
        g = c.Eq(r[i], A * c.exp(-s * c.ln(A / B)))
        if c.mode == 'conc':
            return g
        defs, lem, _ = chain(i)
        return c.hint(g, *lem, defs=defs, final_uses=1)

    def between(i):
        mn = c.Min(c.Min(v0.x11[i], v0.x12[i]), c.Min(v0.x21[i], v0.x22[i]))
        mx = c.Max(c.Max(v0.x11[i], v0.x12[i]), c.Max(v0.x21[i], v0.x22[i]))
        g = c.And(c.Le(mn, r[i]), c.Le(r[i], mx))
        if c.mode == 'conc':
            return g
        defs, lem, (a, b) = chain(i)
        return c.hint(g, *(lem + _geo_chain(c, a, b, s, r[i]) + [c.And(mn <= c.Min(a, b), c.Max(a, b) <= mx)]),
                      defs=defs, final_uses=2)

    def node_lo(i):
        A, B, N1, N2 = parts(i)
        g = c.Implies(c.Eq(v0.T, v0.Tmin), c.Eq(r[i], A))
        if c.mode == 'conc':
            return g
        defs, lem, (a, b) = chain(i)
        return c.hint(g, *(lem + [c.Implies(c.Eq(v0.T, v0.Tmin), s == 0)]), defs=defs)

    def node_hi(i):
        A, B, N1, N2 = parts(i)
        g = c.Implies(c.Eq(v0.T, v0.Tmax), c.Eq(r[i], B))
        if c.mode == 'conc':
            return g
        defs, lem, (a, b) = chain(i)
        L = c.ln(a / b)
        return c.hint(g, *(lem + [c.Lt(0, a / b), c.Eq(c.exp(L), a / b), c.Eq(c.exp(-L) * c.exp(L), 1),
                                  c.And(c.Eq(c.exp(L), a / b), c.Eq(c.exp(-L), b / a)),
                                  c.Implies(c.Eq(v0.T, v0.Tmax), s == 1),
                                  c.Implies(c.Eq(v0.T, v0.Tmax), c.Eq(r[i], b))]), defs=defs, final_uses=1)
    return {'len': c.Len(r) == n, 'form': c.ForallH(0, n, form), 'between': c.ForallH(0, n, between),
            'node_T_lo': c.ForallH(0, n, node_lo), 'node_T_hi': c.ForallH(0, n, node_hi)}


def _expl_gen(rng):
    d = _bil_gen(rng)
    n = d['N']
    base = [10 ** rng.uniform(-40, -2) for _ in range(n)]
    for k in ('x11', 'x12', 'x21', 'x22'):
        d[k] = [b * 10 ** rng.uniform(0, 2) for b in base]     # neighbouring nodes: same order of magnitude
    return d


EXP2 = Unit('C04', 'taurex.util.math:interp_exp_and_lin', _bil_params, pre=expl_pre, post=expl_post,
            result=_vec_result('x11'), gen=_expl_gen, bounds=[dict(N=1)], safety=('index',),
            native=_call_np('taurex.util.math', 'interp_exp_and_lin', _BIL_ORDER), short='interp_exp_and_lin', timeout_ms=20000,
            doc='exp-in-1/T, linear-in-logP kernel: A^(1-s) B^s with A,B the linear-in-logP values')


# ------------------------------------------------------------------ InterpolatingOpacity
IO = 'taurex.opacity.interpolateopacity:InterpolatingOpacity.'


def _self(c):
    if c.mode == 'conc' and 'logP' in c.values:
        c.values['Pgrid'] = [10.0 ** x for x in c.values['logP']]      # keep the two views consistent natively
    nP, nT, W = c.int('nP'), c.int('nT'), c.int('W')
    return ObjSpec('InterpolatingOpacity', xsecGrid=c.array('xsec', (nP, nT, W)),
                   temperatureGrid=c.array('Tgrid', (nT,)), pressureGrid=c.array('Pgrid', (nP,)),
                   logPressure=c.array('logP', (nP,)), _interp_mode=c.choice('mode'))


def _filt(c):
    return c.array('filt', (c.int('F'),), kind='int')


def self_inv(c, s, filt=None):
    """class invariant of a loaded table: >= 2 strictly increasing nodes per axis, positive T, positive
    table values in exp mode; logPressure is the assumed contract of the one-line property
    `np.log10(self.pressureGrid)` (unit logPressure + lemma log10 monotone prove it separately)"""
    nP, nT, W = c.Shape(s.xsecGrid)
    d = {'shape': c.And(nP >= 2, nT >= 2, W >= 0, c.Len(s.temperatureGrid) == nT, c.Len(s.pressureGrid) == nP,
                        c.Len(s.logPressure) == nP),
         'Tsorted': _sorted_strict(c, s.temperatureGrid), 'Psorted': _sorted_strict(c, s.logPressure),
         'Tpos': c.Lt(0, s.temperatureGrid[0])}
    if s._interp_mode == 'exp':
        d['xpos'] = c.Forall(0, nP, lambda p: c.Forall2((0, nT), (0, W), lambda t, w: c.Lt(0, s.xsecGrid[p, t, w])))
    if filt is not None:
        d['filt'] = c.And(c.Len(filt) >= 0, c.Forall(0, c.Len(filt), lambda i: c.And(0 <= filt[i], filt[i] < W)))
    return d


def _mk_opacity(p):
    """native harness: a real InterpolatingOpacity whose abstract grid properties return the given arrays"""
    import numpy as np
    from taurex.opacity.interpolateopacity import InterpolatingOpacity

    class _Table(InterpolatingOpacity):
        @property
        def xsecGrid(self):
            return self._x

        @property
        def temperatureGrid(self):
            return self._t

        @property
        def pressureGrid(self):
            return self._p
    s = p['self']
    o = _Table('verif', interpolation_mode=s['_interp_mode'])
    o._x = np.array(s['xsecGrid'], dtype=float)
    o._t = np.array(s['temperatureGrid'], dtype=float)
    o._p = np.array(s['pressureGrid'], dtype=float)
    return o


def _gen_table(rng, mode):
    import math
    nP, nT, W = rng.randint(2, 3), rng.randint(2, 3), rng.randint(1, 3)
    F = rng.randint(1, W)
    T0 = rng.uniform(50, 500)
    Tg = [T0]
    for _ in range(nT - 1):
        Tg.append(Tg[-1] + rng.uniform(20, 400))
    lp = [rng.uniform(-2, 2)]
    for _ in range(nP - 1):
        lp.append(lp[-1] + rng.uniform(0.3, 2))
    base = 10 ** rng.uniform(-40, -2)
    x = [[[base * 10 ** rng.uniform(0, 2) for _ in range(W)] for _ in range(nT)] for _ in range(nP)]
    filt = sorted(rng.sample(range(W), F))
    import numpy as np
    Pg = [10 ** v for v in lp]
    lp = [float(v) for v in np.log10(np.array(Pg))]       # the log grid exactly as the object computes it (10**v need not round-trip)
    return dict(nP=nP, nT=nT, W=W, F=F, xsec=x, Tgrid=Tg, Pgrid=Pg, logP=lp, filt=filt, mode=mode)


def _pick(rng, grid):
    k = rng.random()
    if k < 0.25:
        return rng.choice(grid)
    if k < 0.4:
        return grid[0] - rng.uniform(0.01, 3) * (grid[-1] - grid[0] + 1)
    if k < 0.55:
        return grid[-1] + rng.uniform(0.01, 3) * (grid[-1] - grid[0] + 1)
    return rng.uniform(grid[0], grid[-1])


# ---- logPressure property + lemma
def _lp_params(c):
    return dict(self=ObjSpec('InterpolatingOpacity', pressureGrid=c.array('Pgrid', (c.int('nP'),))))


LOGP = Unit('C04', IO + 'logPressure', _lp_params,
            pre=lambda c, v: {'n': c.Len(v.self.pressureGrid) >= 0},
            post=lambda c, v0, v1, r: {'len': c.Len(r) == c.Len(v0.self.pressureGrid),
                                       'log10': c.Forall(0, c.Len(r), lambda i: c.Eq(r[i], c.log10(v0.self.pressureGrid[i])))},
            native=lambda c, p: (__import__('numpy').log10(__import__('numpy').array(p['self']['pressureGrid'])), p),
            gen=lambda rng: dict(nP=2, Pgrid=[rng.uniform(1, 10), rng.uniform(11, 1e6)]), bounds=[dict(nP=2)],
            short='InterpolatingOpacity.logPressure', doc='logPressure[i] = log10(pressureGrid[i])')


def _lemma_log10_mono(c):
    x, y = z3.Reals('x y')
    return [('strict', [0 < x, x < y], c.log10(x) < c.log10(y))]


Lemma('C04', 'log10_strictly_increasing', _lemma_log10_mono,
      doc='positive strictly increasing pressure nodes have strictly increasing log10 (ground log10 axioms)')


# ---- find_closest_index
def _fci_params(c):
    return dict(self=_self(c), T=c.real('T'), P=c.real('P'))


def fci_post(c, v0, v1, r):
    s = v0.self
    d = {}
    for k, g in fcp_post(c, _V(arr=s.temperatureGrid, value=v0.T), None, (r[0], r[1])).items():
        d['T.' + k] = g
    for k, g in fcp_post(c, _V(arr=s.logPressure, value=v0.P), None, (r[2], r[3])).items():
        d['P.' + k] = g
    return d


class _V:
    def __init__(self, **kw):
        self.__dict__.update(kw)


def _fci_native(c, p):
    o = _mk_opacity(p)
    return tuple(int(x) for x in o.find_closest_index(p['T'], p['P'])), p


def _fci_gen(rng):
    d = _gen_table(rng, 'linear')
    d.update(T=_pick(rng, d['Tgrid']), P=_pick(rng, d['logP']))
    return d


FCI = Unit('C04', IO + 'find_closest_index', _fci_params, pre=lambda c, v: self_inv(c, v.self), post=fci_post,
           result=lambda ex, st, v0: tuple(ex.c.fresh(n) for n in ('tmin', 'tmax', 'pmin', 'pmax')),
           native=_fci_native, gen=_fci_gen, cases=[{'mode': 'linear'}], bounds=[dict(nP=2, nT=3, W=1)],
           short='InterpolatingOpacity.find_closest_index')


# ---- 1-D interpolation along one axis at a fixed index of the other
def _to_params(c):
    return dict(self=_self(c), T=c.real('T'), t_idx_min=c.int('t_idx_min'), t_idx_max=c.int('t_idx_max'),
                P=c.choice('Pidx'), filt=_filt(c))


def to_pre(c, v):
    s = v.self
    nP, nT, W = c.Shape(s.xsecGrid)
    d = self_inv(c, s, v.filt)
    d['idx'] = c.And(0 <= v.t_idx_min, v.t_idx_min < v.t_idx_max, v.t_idx_max < nT, v.P in (-1, 0))
    d['inside'] = c.And(c.Le(s.temperatureGrid[v.t_idx_min], v.T), c.Le(v.T, s.temperatureGrid[v.t_idx_max]))
    return d


def _wrap(c, i, n):
    return i + n if i < 0 else i


def to_post(c, v0, v1, r):
    s = v0.self
    nP, nT, W = c.Shape(s.xsecGrid)
    p = _wrap(c, v0.P, nP)
    F = c.Len(v0.filt)

    def a(i):
        return s.xsecGrid[p, v0.t_idx_min, v0.filt[i]]

    def b(i):
        return s.xsecGrid[p, v0.t_idx_max, v0.filt[i]]
    Tmin, Tmax = s.temperatureGrid[v0.t_idx_min], s.temperatureGrid[v0.t_idx_max]
    d = {'len': c.Len(r) == F,
         'between': c.Forall(0, F, lambda i: c.And(c.Le(c.Min(a(i), b(i)), r[i]), c.Le(r[i], c.Max(a(i), b(i))))),
         'node_lo': c.Implies(c.Eq(v0.T, Tmin), c.Forall(0, F, lambda i: c.Eq(r[i], a(i)))),
         'node_hi': c.Implies(c.Eq(v0.T, Tmax), c.Forall(0, F, lambda i: c.Eq(r[i], b(i))))}
    if s._interp_mode == 'linear':
        sc = (v0.T - Tmin) / (Tmax - Tmin)
        d['form'] = c.Forall(0, F, lambda i: c.Eq(r[i], a(i) - sc * (a(i) - b(i))))
    else:
        se = Tmax * (v0.T - Tmin) / (v0.T * (Tmax - Tmin))
        d['form'] = c.Forall(0, F, lambda i: c.Eq(r[i], a(i) * c.exp(-se * c.ln(a(i) / b(i)))))
    return d


def _to_native(c, p):
    import numpy as np
    o = _mk_opacity(p)
    return o.interp_temp_only(p['T'], p['t_idx_min'], p['t_idx_max'], p['P'], np.array(p['filt'], dtype=int)), p


def _to_gen(rng, mode=None):
    mode = mode or rng.choice(['linear', 'exp'])
    d = _gen_table(rng, mode)
    lo = rng.randint(0, d['nT'] - 2)
    hi = lo + 1
    d.update(t_idx_min=lo, t_idx_max=hi, Pidx=rng.choice([-1, 0]),
             T=rng.choice([d['Tgrid'][lo], d['Tgrid'][hi], rng.uniform(d['Tgrid'][lo], d['Tgrid'][hi])]))
    return d


_MODES = [{'mode': 'linear'}, {'mode': 'exp'}]
_res_filt = lambda ex, st, v0: st.alloc(ex.c, ex.c.fresh_array('r', (ex.c.Len(v0.filt),)))
TO = Unit('C04', IO + 'interp_temp_only', _to_params, pre=to_pre, post=to_post, result=_res_filt, native=_to_native,
          gen=_to_gen, cases=[dict(m, Pidx=i) for m in _MODES for i in (-1, 0)], bounds=[dict(nP=2, nT=2, W=2, F=1)], short='InterpolatingOpacity.interp_temp_only',
          timeout_ms=20000)


def _po_params(c):
    return dict(self=_self(c), P=c.real('P'), p_idx_min=c.int('p_idx_min'), p_idx_max=c.int('p_idx_max'),
                T=c.choice('Tidx'), filt=_filt(c))


def po_pre(c, v):
    s = v.self
    nP, nT, W = c.Shape(s.xsecGrid)
    d = self_inv(c, s, v.filt)
    d['idx'] = c.And(0 <= v.p_idx_min, v.p_idx_min < v.p_idx_max, v.p_idx_max < nP, v.T in (-1, 0))
    d['inside'] = c.And(c.Le(s.logPressure[v.p_idx_min], v.P), c.Le(v.P, s.logPressure[v.p_idx_max]))
    return d


def po_post(c, v0, v1, r):
    s = v0.self
    nP, nT, W = c.Shape(s.xsecGrid)
    t = _wrap(c, v0.T, nT)
    F = c.Len(v0.filt)

    def a(i):
        return s.xsecGrid[v0.p_idx_min, t, v0.filt[i]]

    def b(i):
        return s.xsecGrid[v0.p_idx_max, t, v0.filt[i]]
    Pmin, Pmax = s.logPressure[v0.p_idx_min], s.logPressure[v0.p_idx_max]
    sc = (v0.P - Pmin) / (Pmax - Pmin)
    return {'len': c.Len(r) == F,
            'between': c.Forall(0, F, lambda i: c.And(c.Le(c.Min(a(i), b(i)), r[i]), c.Le(r[i], c.Max(a(i), b(i))))),
            'node_lo': c.Implies(c.Eq(v0.P, Pmin), c.Forall(0, F, lambda i: c.Eq(r[i], a(i)))),
            'node_hi': c.Implies(c.Eq(v0.P, Pmax), c.Forall(0, F, lambda i: c.Eq(r[i], b(i)))),
            'form': c.Forall(0, F, lambda i: c.Eq(r[i], a(i) - sc * (a(i) - b(i))))}


def _po_native(c, p):
    import numpy as np
    o = _mk_opacity(p)
    return o.interp_pressure_only(p['P'], p['p_idx_min'], p['p_idx_max'], p['T'], np.array(p['filt'], dtype=int)), p


def _po_gen(rng):
    d = _gen_table(rng, 'linear')
    lo = rng.randint(0, d['nP'] - 2)
    d.update(p_idx_min=lo, p_idx_max=lo + 1, Tidx=rng.choice([-1, 0]),
             P=rng.choice([d['logP'][lo], d['logP'][lo + 1], rng.uniform(d['logP'][lo], d['logP'][lo + 1])]))
    return d


PO = Unit('C04', IO + 'interp_pressure_only', _po_params, pre=po_pre, post=po_post, result=_res_filt,
          native=_po_native, gen=_po_gen, cases=[{'mode': 'linear', 'Tidx': i} for i in (-1, 0)], bounds=[dict(nP=2, nT=2, W=2, F=1)],
          short='InterpolatingOpacity.interp_pressure_only')


# ---- region dispatch
def _bg_params(c):
    return dict(self=_self(c), T=c.real('T'), P=c.real('P'), t_idx_min=c.int('t_idx_min'),
                t_idx_max=c.int('t_idx_max'), p_idx_min=c.int('p_idx_min'), p_idx_max=c.int('p_idx_max'),
                wngrid_filter=_filt(c))


def bg_pre(c, v):
    s = v.self
    d = self_inv(c, s, v.wngrid_filter)
    # the indices are the result of find_closest_index(T, P)
    for k, g in fcp_post(c, _V(arr=s.temperatureGrid, value=v.T), None, (v.t_idx_min, v.t_idx_max)).items():
        d['idxT.' + k] = g
    for k, g in fcp_post(c, _V(arr=s.logPressure, value=v.P), None, (v.p_idx_min, v.p_idx_max)).items():
        d['idxP.' + k] = g
    if c.mode == 'conc':
        d['not_on_the_knife_edge'] = _not_knife_edge(v.P, v.T, s.logPressure, s.temperatureGrid)
    return d


def _not_knife_edge(logp, T, logP_grid, T_grid):
    """run-time evaluation only (float = real does not hold here): below the temperature grid the result jumps from the edge-node
    value to zero exactly at the lowest tabulated pressure; whether a pressure within rounding of that edge counts as 'below' is
    decided by the last bit of log10 (math.log10 of the query vs numpy.log10 of the grid) -- nothing is claimed there"""
    lo = float(logP_grid[0])
    return not (float(T) < float(T_grid[0]) and abs(float(logp) - lo) <= 1e-12 * max(1.0, abs(lo)))


def bg_post(c, v0, v1, r):
    """taken from the property statement: node values reproduced; otherwise between the smallest and largest
    tabulated value at the bracketing nodes, the nearest edge node standing in for a variable that is outside
    the grid; zero below both minima; documented forms inside a cell."""
    s = v0.self
    nP, nT, W = c.Shape(s.xsecGrid)
    filt = v0.wngrid_filter
    F = c.Len(filt)
    Tg, Pg = s.temperatureGrid, s.logPressure
    T, P = v0.T, v0.P
    Tlow, Thigh = c.Lt(T, Tg[0]), c.Le(Tg[nT - 1], T)
    Plow, Phigh = c.Lt(P, Pg[0]), c.Le(Pg[nP - 1], P)
    # clamped bracketing nodes
    ta = c.If(Tlow, 0, c.If(Thigh, nT - 1, v0.t_idx_min))
    tb = c.If(Tlow, 0, c.If(Thigh, nT - 1, v0.t_idx_max))
    pa = c.If(Plow, 0, c.If(Phigh, nP - 1, v0.p_idx_min))
    pb = c.If(Plow, 0, c.If(Phigh, nP - 1, v0.p_idx_max))

    def x(p, t, i):
        return s.xsecGrid[p, t, filt[i]]

    def lo(i):
        return c.Min(c.Min(x(pa, ta, i), x(pa, tb, i)), c.Min(x(pb, ta, i), x(pb, tb, i)))

    def hi(i):
        return c.Max(c.Max(x(pa, ta, i), x(pa, tb, i)), c.Max(x(pb, ta, i), x(pb, tb, i)))
    both_low = c.And(Plow, Tlow)
    interior = c.Not(c.Or(Tlow, Thigh, Plow, Phigh))
    d = {
        'len': c.Len(r) == F,
        'zero_below_both': c.Implies(both_low, c.Forall(0, F, lambda i: c.Eq(r[i], 0))),
        'between': c.Implies(c.Not(both_low), c.Forall(0, F, lambda i: c.And(c.Le(lo(i), r[i]), c.Le(r[i], hi(i))))),
        'nonneg': c.Implies(c.Forall(0, nP, lambda p: c.Forall2((0, nT), (0, W), lambda t, w: c.Le(0, s.xsecGrid[p, t, w]))),
                            c.Forall(0, F, lambda i: c.Le(0, r[i]))),
        'node': c.scope(c.Forall(0, nP, lambda p: c.Forall(0, nT, lambda t: c.Implies(
            c.And(c.Eq(P, Pg[p]), c.Eq(T, Tg[t])), c.Forall(0, F, lambda i: c.Eq(r[i], x(p, t, i)))))),
            'pre.*', 'call.*.node*', 'call.*.len', 'call.intepr_bilin.*', 'call.interp_lin_only.*'),
    }
    Tmin, Tmax = Tg[v0.t_idx_min], Tg[v0.t_idx_max]
    Pmin, Pmax = Pg[v0.p_idx_min], Pg[v0.p_idx_max]
    ps = (P - Pmin) / (Pmax - Pmin)
    if s._interp_mode == 'linear':
        ts = (T - Tmin) / (Tmax - Tmin)
        d['interior_form'] = c.Implies(interior, lambda: c.Forall(0, F, lambda i: c.Eq(
            r[i], (1 - ps) * (1 - ts) * x(v0.p_idx_min, v0.t_idx_min, i) + (1 - ps) * ts * x(v0.p_idx_min, v0.t_idx_max, i)
            + ps * (1 - ts) * x(v0.p_idx_max, v0.t_idx_min, i) + ps * ts * x(v0.p_idx_max, v0.t_idx_max, i))))
    else:
        def A(i):
            return x(v0.p_idx_min, v0.t_idx_min, i) - ps * (x(v0.p_idx_min, v0.t_idx_min, i) - x(v0.p_idx_max, v0.t_idx_min, i))

        def B(i):
            return x(v0.p_idx_min, v0.t_idx_max, i) - ps * (x(v0.p_idx_min, v0.t_idx_max, i) - x(v0.p_idx_max, v0.t_idx_max, i))
        d['interior_form'] = c.Implies(interior, lambda: c.Forall(0, F, lambda i: c.Eq(
            r[i], A(i) * c.exp(-(Tmax * (T - Tmin) / (T * (Tmax - Tmin))) * c.ln(A(i) / B(i))))))
    return d


def _bg_native(c, p):
    import numpy as np
    o = _mk_opacity(p)
    r = o.interp_bilinear_grid(p['T'], p['P'], p['t_idx_min'], p['t_idx_max'], p['p_idx_min'], p['p_idx_max'],
                               np.array(p['wngrid_filter'], dtype=int))
    return np.asarray(r, dtype=float), p


def _bg_gen(rng):
    import numpy as np
    from taurex.util.util import find_closest_pair
    d = _gen_table(rng, rng.choice(['linear', 'exp']))
    T, P = _pick(rng, d['Tgrid']), _pick(rng, d['logP'])
    tl, tr = find_closest_pair(np.array(d['Tgrid']), T)
    pl, pr = find_closest_pair(np.array(d['logP']), P)
    d.update(T=T, P=P, t_idx_min=int(tl), t_idx_max=int(tr), p_idx_min=int(pl), p_idx_max=int(pr))
    return d


BG = Unit('C04', IO + 'interp_bilinear_grid', _bg_params, pre=bg_pre, post=bg_post, result=lambda ex, st, v0: st.alloc(
          ex.c, ex.c.fresh_array('r', (ex.c.Len(v0.wngrid_filter),))), native=_bg_native, gen=_bg_gen, cases=_MODES,
          bounds=[dict(nP=2, nT=2, W=1, F=1)], short='InterpolatingOpacity.interp_bilinear_grid', timeout_ms=20000,
          defaults={'wngrid_filter': None},
          doc='region dispatch over the (T, log10 P) plane: interior, four edges, four corners')


# ---- compute_opacity
def _co_params(c):
    return dict(self=_self(c), temperature=c.real('T'), pressure=c.real('pressure'), wngrid=_filt(c))


def co_pre(c, v):
    d = self_inv(c, v.self, v.wngrid)
    d['ppos'] = c.Lt(0, v.pressure)
    if c.mode == 'conc':
        import math
        d['not_on_the_knife_edge'] = float(v.pressure) > 0 and _not_knife_edge(math.log10(float(v.pressure)), v.temperature, v.self.logPressure, v.self.temperatureGrid)
    return d


def co_post(c, v0, v1, r):
    """compute_opacity(T, p) = interp_bilinear_grid(T, log10 p, closest indices) / 10000 (cm2 -> m2)"""
    s = v0.self
    nP, nT, W = c.Shape(s.xsecGrid)
    F = c.Len(v0.wngrid)
    T = v0.temperature
    P = c.log10(v0.pressure)
    Tg, Pg = s.temperatureGrid, s.logPressure
    both_low = c.And(c.Lt(P, Pg[0]), c.Lt(T, Tg[0]))
    return {
        'len': c.Len(r) == F,
        'zero_below_both': c.Implies(both_low, c.Forall(0, F, lambda i: c.Eq(r[i], 0))),
        'nonneg': c.Implies(c.Forall(0, nP, lambda p: c.Forall2((0, nT), (0, W), lambda t, w: c.Le(0, s.xsecGrid[p, t, w]))),
                            c.Forall(0, F, lambda i: c.Le(0, r[i]))),
        'node': c.Forall(0, nP, lambda p: c.Forall(0, nT, lambda t: c.Implies(
            c.And(c.Eq(P, Pg[p]), c.Eq(T, Tg[t])),
            c.Forall(0, F, lambda i: c.Eq(r[i], s.xsecGrid[p, t, v0.wngrid[i]] / 10000))))),
        'bounded_by_table': c.Forall(0, F, lambda i: c.Implies(c.Not(both_low), c.Exists(0, nP, lambda p: c.Exists(
            0, nT, lambda t: c.Le(r[i], s.xsecGrid[p, t, v0.wngrid[i]] / 10000))))),
    }


def _co_native(c, p):
    import numpy as np
    o = _mk_opacity(p)
    return np.asarray(o.compute_opacity(p['temperature'], p['pressure'], np.array(p['wngrid'], dtype=int)), dtype=float), p


def _co_gen(rng):
    d = _gen_table(rng, rng.choice(['linear', 'exp']))
    d.update(T=_pick(rng, d['Tgrid']), pressure=10 ** _pick(rng, d['logP']))
    return d


CO = Unit('C04', IO + 'compute_opacity', _co_params, pre=co_pre, post=co_post, native=_co_native, gen=_co_gen,
          cases=_MODES, bounds=[dict(nP=2, nT=2, W=1, F=1)], short='InterpolatingOpacity.compute_opacity',
          timeout_ms=20000, safety=('index', 'div', 'domain'))
