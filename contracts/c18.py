"""C18 -- parallel post-processing is invariant to how samples are split across ranks.

Under contract: OnlineVariance.update (Welford invariant with ghost sums), OnlineVariance.combine_variance
(for R = 1..3 gathered ranks, every combination of empty / one-sample / many-sample ranks, values symbolic),
the pooled-variance lemma for every R, and the round-robin partition lemma."""
import itertools
import z3
from pyvc.unit import Unit, ObjSpec, Lemma

OV = 'taurex.util.math:OnlineVariance.'


# ------------------------------------------------------------------ update
def _upd_params(c):
    first = c.choice('first')
    S0, S1, S2 = c.real('S0'), c.real('S1'), c.real('S2')
    if first:
        o = ObjSpec('OnlineVariance', count=0.0, wcount=0.0, wcount2=0.0, mean=None, M2=None)
    else:
        o = ObjSpec('OnlineVariance', count=c.real('count'), wcount=c.real('wcount'), wcount2=c.real('wcount2'),
                    mean=c.real('mean'), M2=c.real('M2'))
    return dict(self=o, value=c.real('value'), weight=c.real('weight'), _S0=S0, _S1=S1, _S2=S2)


def upd_pre(c, v):
    d = {'weight': c.Lt(0, v.weight)}
    if v.self.mean is None:
        d['ghost'] = c.And(c.Eq(v._S0, 0), c.Eq(v._S1, 0), c.Eq(v._S2, 0))
    else:
        s = v.self
        d['inv'] = c.And(c.Eq(s.wcount, v._S0), c.Lt(0, v._S0), c.Eq(s.mean * v._S0, v._S1),
                         c.Eq(s.M2 * v._S0, v._S2 * v._S0 - v._S1 * v._S1, scale=v._S2 * v._S0), c.Le(1, s.count))
    return d


def upd_post(c, v0, v1, r):
    """Welford: after the update  wcount = S0', mean*S0' = S1', M2*S0' = S2'*S0' - S1'^2  with
    S0' = S0+w, S1' = S1+w*x, S2' = S2+w*x^2 (so M2/wcount is the weighted two-pass variance)"""
    w, x = v0.weight, v0.value
    S0, S1, S2 = v0._S0 + w, v0._S1 + w * x, v0._S2 + w * x * x
    s = v1.self
    cnt0 = v0.self.count
    return {'count': c.Eq(s.count, cnt0 + 1), 'wcount': c.Eq(s.wcount, S0), 'mean': c.Eq(s.mean * S0, S1),
            'M2': c.Eq(s.M2 * S0, S2 * S0 - S1 * S1, scale=S2 * S0)}


def _mk_ov(d):
    from taurex.util.math import OnlineVariance
    o = OnlineVariance()
    for k in ('count', 'wcount', 'wcount2', 'mean', 'M2'):
        setattr(o, k, d[k])
    return o


def _upd_native(c, p):
    o = _mk_ov(p['self'])
    o.update(p['value'], p['weight'])
    q = dict(p)
    q['self'] = dict(p['self'], count=o.count, wcount=o.wcount, wcount2=o.wcount2, mean=o.mean, M2=o.M2)
    return None, q


def _upd_gen(rng):
    first = rng.random() < 0.3
    xs = [] if first else [(rng.uniform(-5, 5), rng.uniform(0.1, 2)) for _ in range(rng.randint(1, 4))]
    S0 = sum(w for x, w in xs)
    S1 = sum(w * x for x, w in xs)
    S2 = sum(w * x * x for x, w in xs)
    d = dict(first=first, S0=S0, S1=S1, S2=S2, value=rng.uniform(-5, 5), weight=rng.uniform(0.1, 2))
    if not first:
        d.update(count=float(len(xs)), wcount=S0, wcount2=sum(w * w for x, w in xs), mean=S1 / S0, M2=S2 - S1 * S1 / S0)
    return d


UPD = Unit('C18', OV + 'update', _upd_params, pre=upd_pre, post=upd_post, frame_attrs=[('self', a) for a in
           ('count', 'wcount', 'wcount2', 'mean', 'M2')], native=_upd_native, gen=_upd_gen,
           cases=[{'first': True}, {'first': False}], bounds=[{}], short='OnlineVariance.update',
           doc='streaming weighted mean/M2 (Welford) keeps the ghost-sum invariant')


# ------------------------------------------------------------------ combine_variance
# kind of a rank: 0 = received no sample, 1 = exactly one sample, 2 = two or more samples
def _cv_params(c):
    R = c.choice('R')
    ser = c.choice('serialised')
    from pyvc.engine import NanRef
    av, va, cn = [], [], []
    for r in range(R):
        k = c.choice('k%d' % r)
        a, s0, vr = c.real('avg%d' % r), c.real('S0_%d' % r), c.real('var%d' % r)
        if c.mode == 'conc':
            import numpy as np
            nan = (lambda: float('nan')) if ser else (lambda: np.nan)     # a pickled NaN is a new object
        else:
            nan = (lambda r=r: NanRef('copy%d' % r)) if ser else (lambda: NanRef('singleton'))
        av.append(nan() if k == 0 else a)
        va.append(nan() if k < 2 else vr)
        cn.append(0.0 if k == 0 else s0)
    return dict(self=ObjSpec('OnlineVariance'), averages=av, variance=va, counts=cn)


def _cv_ranks(c, v):
    """-> [(S0, S1, S2)] per rank from the exchanged (mean, variance, weight)"""
    out = []
    for a, vr, s0 in zip(v.averages, v.variance, v.counts):
        if c.IsNan(a):
            out.append((0, 0, 0))
        else:
            var = 0 if c.IsNan(vr) else vr
            out.append((s0, a * s0, (var + a * a) * s0))
    return out


def cv_pre(c, v):
    d = {}
    for r, (a, vr, s0) in enumerate(zip(v.averages, v.variance, v.counts)):
        if not c.IsNan(a):
            d['w%d' % r] = c.Lt(0, s0)
        if not c.IsNan(vr):
            d['v%d' % r] = c.Le(0, vr)
    d['some'] = any(not c.IsNan(a) for a in v.averages)
    return d


def cv_post(c, v0, v1, r):
    if c.IsNan(r[0]) or c.IsNan(r[1]):
        return {'finite': False}          # a NaN result can never be the two-pass variance of finite samples
    rk = _cv_ranks(c, v0)
    S0 = sum(x[0] for x in rk)
    S1 = sum(x[1] for x in rk)
    S2 = sum(x[2] for x in rk)
    return {'mean': c.Eq(r[0] * S0, S1),
            'variance': c.Eq(r[1] * S0 * S0, S2 * S0 - S1 * S1, scale=S2 * S0),      # two-pass weighted variance of all samples
            'finite': True}


def _cv_native(c, p):
    from taurex.util.math import OnlineVariance
    o = OnlineVariance()
    avg, var = o.combine_variance(list(p['averages']), list(p['variance']), list(p['counts']))
    return (float(avg), float(var)), p


def _cv_cases():
    out = []
    for R in (1, 2, 3):
        for ks in itertools.product((0, 1, 2), repeat=R):
            if all(k == 0 for k in ks):
                continue
            d = {'R': R, 'serialised': True}
            d.update({'k%d' % r: k for r, k in enumerate(ks)})
            out.append(d)
    out.append({'R': 1, 'serialised': False, 'k0': 1})      # single-process stub: the value itself comes back
    out.append({'R': 1, 'serialised': False, 'k0': 2})
    return out


def _cv_gen(rng):
    case = rng.choice(_cv_cases())
    d = dict(case)
    for r in range(case['R']):
        d['avg%d' % r] = rng.uniform(-3, 3)
        d['S0_%d' % r] = rng.uniform(0.2, 3)
        d['var%d' % r] = rng.uniform(0, 2)
    return d


CV = Unit('C18', OV + 'combine_variance', _cv_params, pre=cv_pre, post=cv_post, native=_cv_native, gen=_cv_gen,
          cases=_cv_cases(), bounds=[{}], short='OnlineVariance.combine_variance', inline=['test_nan'],
          doc='pooled mean/variance of gathered (mean, variance, weight) triples; NaN of a one-sample rank arrives '
              'as a serialised copy (not the np.nan singleton). Code level: R <= 3 ranks (every empty / one / many '
              'pattern); all R by lemma pooled_variance')


# ------------------------------------------------------------------ lemmas
def _pooled(c):
    """for every number of ranks: sum_r cnt_r*((A-avg_r)^2 + var_r) / S0 = S2/S0 - A^2 with A = S1/S0 (induction)"""
    I, R = z3.IntSort(), z3.RealSort()
    avg, var, cnt = z3.Function('avg', I, R), z3.Function('var', I, R), z3.Function('cnt', I, R)
    m, n = z3.Ints('m n')
    A = z3.Real('A')

    def S0(k):
        return c.Sum(0, k, lambda r: cnt(r))

    def S1(k):
        return c.Sum(0, k, lambda r: cnt(r) * avg(r))

    def S2(k):
        return c.Sum(0, k, lambda r: cnt(r) * (var(r) + avg(r) * avg(r)))

    def SQ(k):      # what the second loop accumulates
        return c.Sum(0, k, lambda r: cnt(r) * (A - avg(r)) * (A - avg(r)) + cnt(r) * var(r))

    def P(k):
        return SQ(k) == S2(k) - 2 * A * S1(k) + A * A * S0(k)
    mm = z3.Int('mm')
    return [('base', [], P(0)), ('step', [m >= 0, P(m)], P(m + 1)),
            ('final', [z3.ForAll([mm], z3.Implies(mm >= 0, P(mm))), n >= 0, S0(n) > 0, A * S0(n) == S1(n)],
             c.hint(SQ(n) * S0(n) == S2(n) * S0(n) - S1(n) * S1(n), P(n)))]


Lemma('C18', 'pooled_variance', _pooled, doc='pooled combination = two-pass variance, any number of ranks')


def _partition(c):
    """round-robin split sample_list[rank::size]: every index belongs to exactly one rank"""
    i, size, r1, r2, q1, q2 = z3.Ints('i size r1 r2 q1 q2')
    return [('exists', [size >= 1, i >= 0], z3.And(0 <= i % size, i % size < size, i == (i % size) + size * (i / size),
                                                   i / size >= 0)),
            ('unique', [size >= 1, i >= 0, 0 <= r1, r1 < size, 0 <= r2, r2 < size, q1 >= 0, q2 >= 0,
                        i == r1 + size * q1, i == r2 + size * q2], z3.And(r1 == r2, q1 == q2))]


Lemma('C18', 'round_robin_partition', _partition, doc='exists! (rank, position) with index = rank + size*position')


# ------------------------------------------------------------------ generate_profiles.sample_iter: the round-robin share of one rank
from pyvc.unit import GenTrace
from pyvc.engine import AbsObj
from pyvc.core import PyList, Ref

OPT = 'taurex.optimizer.optimizer:Optimizer.'


def _si_params(c):
    N, size, rank = c.choice('N'), c.choice('size'), c.choice('rank')
    samples = [(('params', i), c.real('w%d' % i)) for i in range(N)]
    return dict(self=ObjSpec('Optimizer'), sample_list=samples, rank=rank, size=size)


def _h_um(ex, st, args, kwargs, node):
    st.trace.append(('ev', ('update_model', args[1])))
    return None


def _noop(ex, st, args, kwargs, node):
    return None


def _si_yields(c, v0, v, k, val):
    """the k-th weight yielded on this rank is that of sample rank + k*size, and the model was updated with exactly that
    sample's parameters immediately before"""
    N, size, rank = (c.fixed['N'], c.fixed['size'], c.fixed['rank']) if c.mode != 'conc' else (c.values['N'], c.values['size'], c.values['rank'])
    i = rank + k * size
    if i >= N:
        return {'no_more_than_its_share': False}
    return {'weight_of_its_own_sample': c.Eq(val, v0.sample_list[i][1])}


def _si_post(c, v0, v1, r):
    N, size, rank = (c.fixed['N'], c.fixed['size'], c.fixed['rank']) if c.mode != 'conc' else (c.values['N'], c.values['size'], c.values['rank'])
    mine = list(range(rank, N, size))
    ups = [e[1] for e in (c.trace or []) if e[0] == 'update_model']
    return {'one_yield_per_sample_of_this_rank': len(r) == len(mine),
            'model_updated_once_per_sample_in_order': [tuple(u) if isinstance(u, (tuple, list)) else u for u in ups] == [('params', i) for i in mine]}


def _si_native(c, p):
    import taurex.mpi as mpi
    import taurex.optimizer.optimizer as mod
    from taurex.optimizer.optimizer import Optimizer
    N, size, rank = c.values['N'], c.values['size'], c.values['rank']
    trace = []
    got = {}

    class _O(Optimizer):
        def sample_parameters(self, solution):
            return iter([(('params', i), p['sample_list'][i][1]) for i in range(N)])

        def update_model(self, v):
            trace.append(('update_model', tuple(v)))
    o = _O.__new__(_O)
    for nm in ('debug', 'info', 'warning', 'error', 'critical'):
        setattr(o, nm, lambda *a, **k: None)

    def compute_error(it, wngrid=None, binner=None):
        got['weights'] = list(it())
        return {}, {}

    class _M:
        pass
    o._model = _M()
    o._model.compute_error = compute_error
    o._binner = None
    saved = (mpi.get_rank, mpi.nprocs, mpi.broadcast)
    mpi.get_rank, mpi.nprocs, mpi.broadcast = (lambda: rank), (lambda: size), (lambda x, rank=0: x if x is not None else [(('params', i), p['sample_list'][i][1]) for i in range(N)])
    try:
        o.generate_profiles(0, None)
    finally:
        mpi.get_rank, mpi.nprocs, mpi.broadcast = saved
    vals = got.get('weights', [])
    return GenTrace(vals, [p] * len(vals)), dict(p, __trace__=trace)


_SI_CASES = [dict(N=n, size=s, rank=r) for n in range(0, 7) for s in (1, 2, 3, 4) for r in range(s)]


def _si_gen(rng):
    d = dict(rng.choice(_SI_CASES))
    for i in range(7):
        d['w%d' % i] = rng.uniform(0.1, 1)
    return d


SI = Unit('C18', OPT + 'generate_profiles.sample_iter', _si_params, yields=_si_yields, post=_si_post, cases=_SI_CASES, bounds=[{}],
          abstract={'call:update_model': _h_um, 'call:enableLogging': _noop, 'call:disableLogging': _noop}, native=_si_native, gen=_si_gen,
          short='Optimizer.generate_profiles.sample_iter',
          doc='the iterator handed to compute_error on one rank processes exactly the samples rank, rank+size, ... in order (0..6 samples, '
              '1..4 ranks, every rank); with lemma round_robin_partition every sample is processed exactly once over all ranks')


# ------------------------------------------------------------------ OnlineVariance.parallelVariance: what is gathered and how it is combined
from pyvc.core import PyList, Ref, is_sym


def _pv_params(c):
    has = c.choice('has_mean')
    return dict(self=ObjSpec('OnlineVariance', count=c.real('count'), wcount=c.real('wcount'), wcount2=c.real('wcount2'),
                             mean=c.real('mean') if has else None, M2=c.real('M2') if has else None))


def _h_allgather(ex, st, args, kwargs, node):
    """ASSUMED: mpi.allgather(x) returns one entry per rank in rank order; this rank's entry is (a serialised copy of) x.
    Each call is recorded; the other ranks' entries are unknown values tagged with the call number."""
    c = ex.c
    k = sum(1 for tag, y in st.trace if tag == 'ev' and y[0] == 'allgather')
    R, r = c.fixed['R'], c.fixed['rank']
    x = args[0]
    out = [(x if q == r else ('nan-or-value' if False else c.real('other_%d_%d' % (k, q)))) for q in range(R)]
    lst = st.alloc(c, PyList(out))
    st.trace.append(('ev', ('allgather', k, x, lst.id)))
    return lst


def _h_combine(ex, st, args, kwargs, node):
    c = ex.c
    ids = [a.id if isinstance(a, Ref) else a for a in args[1:4]]
    out = (c.real('comb_avg'), c.real('comb_var'))
    st.trace.append(('ev', ('combine_variance',) + tuple(ids)))
    return out


def _pv_post(c, v0, v1, r):
    s = v0.self
    tr = [e for e in (c.trace or [])]
    if c.mode == 'conc':
        gathered = [e for e in tr if e[0] == 'allgather']
        comb = [e for e in tr if e[0] == 'combine_variance']
        d = {'four_exchanges_in_order': [e[1] for e in gathered] == ['variance', 'mean', 'wcount', 'count']}
        total = sum(gathered[3][2]) if len(gathered) == 4 else None
        if total is not None and total < 2:
            import math
            d['too_few_samples_gives_nan'] = isinstance(r, float) and math.isnan(r) and not comb
        else:
            d['combined_from_means_variances_weights'] = len(comb) == 1 and comb[0][1:] == ('mean', 'variance', 'wcount') and r == 'combined-variance'
        return d
    gathered = [e for e in tr if e[0] == 'allgather']
    comb = [e for e in tr if e[0] == 'combine_variance']
    d = {'four_exchanges': len(gathered) == 4}
    if not d['four_exchanges']:
        return d
    var_x, mean_x, wc_x, cnt_x = [e[2] for e in gathered]
    # what this rank contributes: its variance (NaN below two samples), its mean (NaN when it has none), weight sum, count
    d['contributes_weight_sum_and_count'] = (is_sym(wc_x) and wc_x.eq(s.wcount)) and (is_sym(cnt_x) and cnt_x.eq(s.count))
    d['contributes_its_mean'] = (mean_x is s.mean or (is_sym(mean_x) and s.mean is not None and mean_x.eq(s.mean))) if s.mean is not None \
        else type(mean_x).__name__ == 'NanRef'
    if comb:
        d['combined_from_means_variances_weights'] = len(comb) == 1 and comb[0][1:] == (gathered[1][3], gathered[0][3], gathered[2][3])
        d['returns_the_combined_variance'] = is_sym(r) and r.eq(c.real('comb_var'))
    else:
        d['too_few_samples_gives_nan'] = type(r).__name__ == 'NanRef'
    return d


def _pv_native(c, p):
    import numpy as np
    import taurex.mpi as mpi
    from taurex.util.math import OnlineVariance
    R, rk = c.values['R'], c.values['rank']
    s = p['self']
    o = OnlineVariance()
    o.count, o.wcount, o.wcount2 = s['count'], s['wcount'], s['wcount2']
    o.mean = None if s['mean'] is None else np.array([s['mean']])
    o.M2 = None if s['M2'] is None else np.array([s['M2']])
    trace = []
    others = c.values.get('others', [1.0] * 4)
    names = ['variance', 'mean', 'wcount', 'count']
    tags = {}

    def ag(x):
        k = len([e for e in trace if e[0] == 'allgather'])
        out = [x if q == rk else others[k % 4] for q in range(R)]
        tags[id(out)] = names[k] if k < 4 else '?'
        trace.append(('allgather', names[k] if k < 4 else '?', out if k == 3 else None))
        return out

    def comb(averages, variance, counts):
        trace.append(('combine_variance', tags.get(id(averages), '?'), tags.get(id(variance), '?'), tags.get(id(counts), '?')))
        return 'combined-average', 'combined-variance'
    saved = mpi.allgather
    mpi.allgather = ag
    o.combine_variance = comb
    try:
        r = o.parallelVariance()
    finally:
        mpi.allgather = saved
    return r, dict(p, __trace__=trace)


def _pv_gen(rng):
    R = rng.randint(1, 3)
    has = rng.random() < 0.8
    cnt = float(rng.randint(1, 4)) if has else 0.0
    return dict(R=R, rank=rng.randrange(R), has_mean=has, few=cnt < 2, count=cnt, wcount=cnt * 0.5, wcount2=cnt * 0.25, mean=1.5, M2=0.7,
                others=[0.3, 1.1, rng.choice([0.0, 1.0]), float(rng.choice([0, 0, 1, 3]))])


def _pv_pre(c, v):
    few = (c.fixed if c.mode != 'conc' else c.values)['few']
    d = {'counts': c.And(v.self.count >= 0, v.self.wcount >= 0), 'own_samples': (v.self.count < 2) if few else (v.self.count >= 2)}
    if not few:
        d['weights_positive'] = v.self.wcount > 0
    return d


PVAR = Unit('C18', OV + 'parallelVariance', _pv_params, pre=_pv_pre, post=_pv_post,
            cases=[dict(R=R, rank=r, has_mean=h, few=f) for R in (1, 2, 3) for r in range(R) for h, f in ((True, False), (True, True), (False, True))],
            bounds=[{}], safety=('index',),
            abstract={'call:allgather': _h_allgather, 'call:combine_variance': _h_combine}, inline=['variance'], native=_pv_native, gen=_pv_gen,
            short='OnlineVariance.parallelVariance',
            doc='every rank contributes its variance, mean (NaN when it has no sample), weight sum and count; NaN when fewer than two samples '
                'exist in total, otherwise combine_variance (by contract, unit above) of the gathered means, variances and weight sums, in '
                'that argument order (allgather: assumed rank-ordered; 1..3 ranks)')


# ------------------------------------------------------------------ SimpleForwardModel.compute_error: every sample evaluated once, with its weight
from pyvc.engine import AbsObj
from pyvc.core import Arr


def _ev(st, *payload):
    st.trace.append(('ev', tuple(payload)))


class _Sample(object):
    """k-th element of the abstract sample generator: taking it is an effect (the optimizer writes sample k to the model)"""

    def __init__(self, k, w):
        self.k, self.w = k, w

    def on_take(self, st):
        _ev(st, 'sample', self.k)


def _h_samples(ex, st, args, kwargs, node):
    c = ex.c
    K = c.fixed['K']
    items = []
    for k in range(K):
        w = c.real('w%d' % k)
        s = _WeightV(w, k)
        items.append(s)
    return st.alloc(c, PyList(items))


class _WeightV(float):
    """the yielded weight w_k, with the effect of advancing the generator attached"""

    def __new__(cls, w, k):
        o = float.__new__(cls, 0.0)
        return o

    def __init__(self, w, k):
        self.w, self.k = w, k

    def on_take(self, st):
        _ev(st, 'sample', self.k)


def _h_new_ov(ex, st, args, kwargs, node):
    c = ex.c
    k = sum(1 for tag, y in st.trace if tag == 'ev' and y[0] == 'new_accumulator')
    _ev(st, 'new_accumulator', k)
    return AbsObj('OnlineVariance', k, {})


def _h_ov_update(ex, st, o, args, kwargs, node):
    w = kwargs.get('weight', args[1] if len(args) > 1 else 1.0)
    v = args[0]
    _ev(st, 'update', o.ident, v.id if isinstance(v, Ref) else v, getattr(w, 'k', w))
    return None


def _h_ov_pvar(ex, st, o, args, kwargs, node):
    c = ex.c
    r = st.alloc(c, c.fresh_array('var%d' % o.ident, (c.fresh('nv'),)))
    _ev(st, 'parallelVariance', o.ident, r.id)
    return r


def _h_ce_model(ex, st, args, kwargs, node):
    c = ex.c
    t = sum(1 for tag, y in st.trace if tag == 'ev' and y[0] == 'model')
    g, a, tau = (st.alloc(c, c.fresh_array(nm, (c.fresh('W'),))) for nm in ('grid%d' % t, 'native%d' % t, 'tau%d' % t))
    wn = kwargs.get('wngrid')
    _ev(st, 'model', wn.id if isinstance(wn, Ref) else wn, kwargs.get('cutoff_grid'), g.id, a.id)
    return (g, a, tau, None)


def _h_ce_bindown(ex, st, o, args, kwargs, node):
    c = ex.c
    b = st.alloc(c, c.fresh_array('binned', (c.fresh('B'),)))
    _ev(st, 'bindown', args[0].id, args[1].id, b.id)
    return (None, b, None, None)


def _ce_params(c):
    cond, binned = c.choice('condensates'), c.choice('binner')
    n = c.int('n')
    if c.mode == 'conc':
        return dict(self=dict(__obj__='SimpleForwardModel'), samples='<generator>', wngrid=c.array('obs', (c.int('B'),)),
                    binner=dict(__obj__='Binner') if binned else None)
    chem = ObjSpec('Chemistry', activeGasMixProfile=c.array('active', (1, n)), inactiveGasMixProfile=c.array('inactive', (1, n)),
                   hasCondensates=cond, condensateMixProfile=c.array('cond', (1, n)))
    return dict(self=ObjSpec('SimpleForwardModel', temperatureProfile=c.array('T', (n,)), chemistry=chem),
                samples=FuncV('pyfunc', lambda ex, st, a, k, nd: _h_samples(ex, st, a, k, nd)), wngrid=c.array('obs', (c.int('B'),)),
                binner=AbsObj('Binner', 0, {}) if binned else None)


def _ce_expected(K, cond, binned):
    """documented order of effects; accumulators are numbered in creation order: 0 T, 1 active, 2 inactive, [3 condensates],
    then [binned], native"""
    nacc = 3 + (1 if cond else 0) + (1 if binned else 0) + 1
    ic = 3 if cond else None
    ib = (3 + (1 if cond else 0)) if binned else None
    inat = nacc - 1
    out = [('new_accumulator', k) for k in range(nacc)]
    for k in range(K):
        out += [('sample', k), ('model', k), ('update', 0, 'T', k), ('update', 1, 'active', k), ('update', 2, 'inactive', k)]
        if cond:
            out.append(('update', ic, 'cond', k))
        out.append(('update', inat, 'native%d' % k, k))
        if binned:
            out += [('bindown', k), ('update', ib, 'binned%d' % k, k)]
    return out, ic, ib, inat


def _ce_post(c, v0, v1, r):
    fx = c.fixed if c.mode != 'conc' else c.values
    K, cond, binned = fx['K'], fx['condensates'], fx['binner']
    want, ic, ib, inat = _ce_expected(K, cond, binned)
    tr = list(c.trace or [])
    if c.mode == 'conc':
        got = [e for e in tr if e[0] != 'parallelVariance']
        d = {'every_sample_once_in_order_with_its_weight': got == want}
        pv = [e[1] for e in tr if e[0] == 'parallelVariance']
        prof, spec = r
        keys_p = ['temp_profile_std', 'active_mix_profile_std', 'inactive_mix_profile_std'] + (['condensate_profile_std'] if cond else [])
        keys_s = ['native_std'] + (['binned_std'] if binned else [])
        d['keys'] = list(prof.keys()) == keys_p and list(spec.keys()) == keys_s
        if d['keys']:
            src = dict(zip(keys_p, [0, 1, 2] + ([ic] if cond else [])))
            src.update(native_std=inat)
            if binned:
                src['binned_std'] = ib
            d['each_std_is_the_root_of_its_own_accumulator'] = all((prof.get(k) if k in prof else spec.get(k)) == 'sqrt(var%d)' % a for k, a in src.items())
        return d
    heap = c.raw['state'].heap
    s0 = v0.self
    ids = {'T': s0.ref('temperatureProfile').id, 'active': s0.chemistry.ref('activeGasMixProfile').id,
           'inactive': s0.chemistry.ref('inactiveGasMixProfile').id, 'cond': s0.chemistry.ref('condensateMixProfile').id}
    models = [e for e in tr if e[0] == 'model']
    binds = [e for e in tr if e[0] == 'bindown']
    got = []
    mi = bi = 0
    ok_args = True
    for e in tr:
        if e[0] == 'new_accumulator':
            got.append(e)
        elif e[0] == 'sample':
            got.append(e)
        elif e[0] == 'model':
            ok_args = ok_args and e[1] == v0.ref('wngrid').id and e[2] is False
            got.append(('model', mi))
            mi += 1
        elif e[0] == 'bindown':
            ok_args = ok_args and mi >= 1 and e[1] == models[mi - 1][3] and e[2] == models[mi - 1][4]
            got.append(('bindown', bi))
            bi += 1
        elif e[0] == 'update':
            what = e[2]
            name = next((nm for nm, i in ids.items() if i == what), None)
            if name is None and mi >= 1 and what == models[mi - 1][4]:
                name = 'native%d' % (mi - 1)
            if name is None and bi >= 1 and what == binds[bi - 1][3]:
                name = 'binned%d' % (bi - 1)
            got.append(('update', e[1], name, e[3]))
    d = {'every_sample_once_in_order_with_its_weight': got == want,
         'model_evaluated_on_the_requested_grid_without_clipping': ok_args}
    ret = c.raw['ret']
    pv = {e[1]: e[2] for e in tr if e[0] == 'parallelVariance'}
    ok = isinstance(ret, tuple) and len(ret) == 2 and all(isinstance(x, Ref) and isinstance(heap[x.id], PyDict) for x in ret)
    d['two_dictionaries'] = ok
    if ok:
        prof, spec = heap[ret[0].id].items, heap[ret[1].id].items
        keys_p = ['temp_profile_std', 'active_mix_profile_std', 'inactive_mix_profile_std'] + (['condensate_profile_std'] if cond else [])
        keys_s = ['native_std'] + (['binned_std'] if binned else [])
        d['keys'] = list(prof.keys()) == keys_p and list(spec.keys()) == keys_s
        if d['keys']:
            src = dict(zip(keys_p, [0, 1, 2] + ([ic] if cond else [])))
            src.update(native_std=inat)
            if binned:
                src['binned_std'] = ib
            good = True
            for k, a in src.items():
                arr = heap[(prof[k] if k in prof else spec[k]).id]
                va = heap[pv[a]] if a in pv else None
                j = z3.Int('j?')
                good = good and va is not None and isinstance(arr, Arr) and z3.simplify(arr.elem((j,))).eq(z3.simplify(c.sqrt(va.elem((j,)))))
            d['each_std_is_the_root_of_its_own_accumulator'] = good
    return d


def _ce_native(c, p):
    import numpy as np
    from taurex.model.simplemodel import SimpleForwardModel
    import taurex.util.math as tm
    K, cond, binned = c.values['K'], c.values['condensates'], c.values['binner']
    trace = []
    obs = np.array(p['wngrid'], dtype=float)

    class _Tag(str):
        pass

    class _OV:
        def __init__(self):
            self.k = len([e for e in trace if e[0] == 'new_accumulator'])
            trace.append(('new_accumulator', self.k))

        def update(self, value, weight=1.0):
            trace.append(('update', self.k, str(value), weight))

        def parallelVariance(self):
            trace.append(('parallelVariance', self.k))
            return _V('var%d' % self.k)

    class _V:
        def __init__(self, name):
            self.name = name

        def sqrt(self):
            return 'sqrt(%s)' % self.name
    chem = type('Chem', (), dict(activeGasMixProfile='active', inactiveGasMixProfile='inactive', condensateMixProfile='cond', hasCondensates=cond))()

    class _M(SimpleForwardModel):
        temperatureProfile = property(lambda self: 'T')
        chemistry = property(lambda self: chem)

        def model(self, wngrid=None, cutoff_grid=True):
            t = len([e for e in trace if e[0] == 'model'])
            ok = wngrid is obs and cutoff_grid is False
            trace.append(('model', t if ok else 'wrong arguments'))
            return 'grid%d' % t, 'native%d' % t, 'tau%d' % t, None
    m = _M.__new__(_M)

    def samples():
        for k in range(K):
            trace.append(('sample', k))
            yield k

    class _B:
        def bindown(self, g, s):
            t = len([e for e in trace if e[0] == 'bindown'])
            trace.append(('bindown', t if (g, s) == ('grid%d' % t, 'native%d' % t) else 'wrong arguments'))
            return None, 'binned%d' % t, None, None
    real = tm.OnlineVariance
    from pyvc.unit import patched
    with patched(real, _OV):
        r = m.compute_error(samples, wngrid=obs, binner=_B() if binned else None)
    return r, dict(p, __trace__=trace)


_CE_CASES = [dict(K=K, condensates=cd, binner=b) for K in (0, 1, 2, 3) for cd in (False, True) for b in (False, True)]
from pyvc.core import PyDict
from pyvc.engine import FuncV

CERR = Unit('C18', 'taurex.model.simplemodel:SimpleForwardModel.compute_error', _ce_params, post=_ce_post, cases=_CE_CASES, bounds=[dict(n=2, B=2)],
            abstract={'new:OnlineVariance': _h_new_ov, 'OnlineVariance.update': _h_ov_update, 'OnlineVariance.parallelVariance': _h_ov_pvar,
                      'call:model': _h_ce_model, 'Binner.bindown': _h_ce_bindown},
            native=_ce_native, gen=lambda rng: dict(rng.choice(_CE_CASES), n=2, B=2, obs=[1.0, 2.0]), short='SimpleForwardModel.compute_error',
            doc='posterior spread of profiles and spectra (effect trace, 0..3 samples on this rank): for every sample handed out by the '
                'iterator, in order, the model is evaluated once on the requested grid AFTER the sample was taken and every accumulator is '
                'updated once with the current profile / spectrum and the weight of THAT sample; each stored standard deviation is the root of '
                'the parallel variance of its own accumulator (OnlineVariance by its contracts)')


# ------------------------------------------------------------------ Optimizer.sample_parameters: a sample row travels with ITS weight
def _sp_params(c):
    N, D = c.choice('N'), 2
    picks = c.choice('picks')
    return dict(self=ObjSpec('Optimizer', _sigma_fraction=0.5, g_samples=c.array('samples', (N, D)), g_weights=c.array('weights', (N,))), solution=0)


def _h_rii(ex, st, args, kwargs, node):
    """random_int_iter(total, fraction): ASSUMED to yield distinct indices in [0, total); here: the enumerated picks"""
    c = ex.c
    st.trace.append(('ev', ('random_int_iter', args[0], args[1])))
    return st.alloc(c, PyList(list(c.fixed['picks'])))


def _sp_yields(c, v0, v, k, val):
    fx = c.fixed if c.mode != 'conc' else c.values
    x = fx['picks'][k] if k < len(fx['picks']) else None
    if x is None:
        return {'no_more_than_the_drawn_indices': False}
    row, w = val
    S, W = v0.self.g_samples, v0.self.g_weights
    return {'row_of_the_drawn_index': c.And(c.Eq(row[0], S[x, 0]), c.Eq(row[1], S[x, 1])),
            'weight_of_the_same_index': c.Eq(w, W[x] + 1e-300) if c.mode != 'conc' else (abs(w - W[x]) <= 1e-12 and w > 0)}


def _sp_post(c, v0, v1, r):
    fx = c.fixed if c.mode != 'conc' else c.values
    d = {'one_pair_per_drawn_index': len(r) == len(fx['picks'])}
    N = fx['N']
    W0, W1, S0, S1 = v0.self.g_weights, v1.self.g_weights, v0.self.g_samples, v1.self.g_samples
    # the arrays the sampler stored are handed out by reference (get_weights / get_samples): drawing from them must not change them
    d['stored_weights_and_samples_untouched'] = c.And(*([W1[i] == W0[i] for i in range(N)] + [S1[i, j] == S0[i, j] for i in range(N) for j in range(2)])) \
        if c.mode != 'conc' else (list(W1) == list(W0) and [list(x) for x in S1] == [list(x) for x in S0])
    if c.mode != 'conc':
        calls = [e for e in (c.trace or []) if e[0] == 'random_int_iter']
        d['draws_from_all_samples_with_the_configured_fraction'] = len(calls) == 1 and z3.simplify(to_int_(calls[0][1]) - fx['N']).eq(z3.IntVal(0)) \
            and calls[0][2] == 0.5
    return d


def to_int_(x):
    return x if is_sym(x) else z3.IntVal(int(x))


def _sp_native(c, p):
    import numpy as np
    import taurex.util.util as uu
    from taurex.optimizer.optimizer import Optimizer
    N, picks = c.values['N'], c.values['picks']
    S, W = np.array(p['self']['g_samples'], dtype=float).reshape(N, 2), np.array(p['self']['g_weights'], dtype=float)

    class _O(Optimizer):
        def get_samples(self, k):
            return S

        def get_weights(self, k):
            return W
    o = _O.__new__(_O)
    o._sigma_fraction = 0.5
    saved = uu.random_int_iter
    from pyvc.unit import patched
    with patched(saved, lambda total, fraction: iter(list(picks))):
        vals = [(np.array(row, dtype=float), float(w)) for row, w in o.sample_parameters(0)]
    after = dict(p, self=dict(p['self'], g_samples=S.tolist(), g_weights=W.tolist()))
    return GenTrace(vals, [p] * len(vals)), after


_SP_CASES = [dict(N=N, picks=pk) for N, pk in ((1, ()), (1, (0,)), (2, (1,)), (3, (2, 0)), (4, (3, 1)), (4, (0, 2, 1)))]


def _sp_gen(rng):
    d = dict(rng.choice(_SP_CASES))
    N = d['N']
    d.update(samples=[[rng.uniform(-1, 1), rng.uniform(-1, 1)] for _ in range(N)], weights=[rng.choice([0.0, rng.uniform(0, 1), rng.uniform(0, 1)]) for _ in range(N)])
    return d


SPAR = Unit(['C18', 'C09'], OPT + 'sample_parameters', _sp_params, yields=_sp_yields, post=_sp_post, cases=_SP_CASES, bounds=[{}],
            pre=lambda c, v: {'posterior_weights_are_not_negative': c.And(*[c.Le(0, v.self.g_weights[i]) for i in range((c.fixed if c.mode != 'conc' else c.values)['N'])])
                              if (c.fixed if c.mode != 'conc' else c.values)['N'] else True},
            abstract={'call:get_samples': lambda ex, st, args, kwargs, node: st.get(args[0]).attrs['g_samples'],
                      'call:get_weights': lambda ex, st, args, kwargs, node: st.get(args[0]).attrs['g_weights'],
                      'call:random_int_iter': _h_rii},
            native=_sp_native, gen=_sp_gen, short='Optimizer.sample_parameters',
            doc='the posterior draws handed to the spread computation: for every drawn index the sample row and the weight OF THAT SAME '
                'index (plus 1e-300), drawn from all samples with the configured fraction (random_int_iter abstract: enumerated picks)')


# ------------------------------------------------------------------ Optimizer.generate_profiles: rank 0 draws, everybody gets the same list
def _gpr_params(c):
    if c.mode == 'conc':
        return dict(self=dict(__obj__='Optimizer'), solution=0, binning='<binning>')
    return dict(self=ObjSpec('Optimizer', _model=AbsObj('ForwardModel', 0, {}), _binner=AbsObj('Binner', 'binner', {})), solution=0,
                binning=c.array('obs', (c.int('B'),)))


def _h_sp_list(ex, st, args, kwargs, node):
    _ev(st, 'sample_parameters', args[1])
    return st.alloc(ex.c, PyList([('params0', ex.c.real('w0')), ('params1', ex.c.real('w1'))]))


def _h_bcast(ex, st, args, kwargs, node):
    v = args[0]
    items = list(st.get(v).items) if isinstance(v, Ref) else None
    _ev(st, 'broadcast', None if items is None else len(items))
    if items is None:        # a rank other than 0 hands in None and receives what rank 0 drew
        return st.alloc(ex.c, PyList([('params0', ex.c.real('w0')), ('params1', ex.c.real('w1'))]))
    return v


def _h_cerr(ex, st, o, args, kwargs, node):
    it = args[0]
    wn, bn = kwargs.get('wngrid'), kwargs.get('binner')
    _ev(st, 'compute_error', type(it).__name__ + ':' + str(getattr(it, 'kind', '')), wn.id if isinstance(wn, Ref) else wn,
        bn.ident if isinstance(bn, AbsObj) else bn)
    return ('profile-spread', 'spectrum-spread')


def _gpr_post(c, v0, v1, r):
    fx = c.fixed if c.mode != 'conc' else c.values
    tr = [tuple(e) for e in (c.trace or []) if e[0] in ('sample_parameters', 'broadcast', 'compute_error')]
    if c.mode == 'conc':
        want = ([('sample_parameters', 0)] if fx['rank'] == 0 else []) + [('broadcast', 2 if fx['rank'] == 0 else None),
                                                                          ('compute_error', 'iterator', '<binning>', 'binner')]
        return {'rank_0_draws_all_ranks_share_then_one_spread_computation': tr == want, 'returns_its_result': r == ('profile-spread', 'spectrum-spread')}
    want = ([('sample_parameters', 0)] if fx['rank'] == 0 else []) + [('broadcast', 2 if fx['rank'] == 0 else None),
                                                                      ('compute_error', 'FuncV:closure', v0.ref('binning').id, 'binner')]
    return {'rank_0_draws_all_ranks_share_then_one_spread_computation': tr == want,
            'returns_its_result': c.raw['ret'] == ('profile-spread', 'spectrum-spread')}


def _gpr_native(c, p):
    import taurex.mpi as mpi
    from taurex.optimizer.optimizer import Optimizer
    fx = c.values
    trace = []

    class _O(Optimizer):
        def sample_parameters(self, solution):
            trace.append(('sample_parameters', solution))
            return iter([('params0', 0.1), ('params1', 0.2)])
    o = _O.__new__(_O)
    for nm in ('debug', 'info', 'warning', 'error', 'critical'):
        setattr(o, nm, lambda *a, **k: None)

    class _M:
        def compute_error(self, it, wngrid=None, binner=None):
            trace.append(('compute_error', 'iterator' if callable(it) else '?', wngrid, binner))
            return ('profile-spread', 'spectrum-spread')
    o._model, o._binner = _M(), 'binner'
    saved = (mpi.get_rank, mpi.nprocs, mpi.broadcast)
    mpi.get_rank, mpi.nprocs = (lambda comm=None: fx['rank']), (lambda: fx['size'])

    def bc(x, rank=0):
        trace.append(('broadcast', None if x is None else len(x)))
        return x if x is not None else [('params0', 0.1), ('params1', 0.2)]
    mpi.broadcast = bc
    try:
        r = o.generate_profiles(0, '<binning>')
    finally:
        mpi.get_rank, mpi.nprocs, mpi.broadcast = saved
    return r, dict(p, __trace__=trace)


_GPR_CASES = [dict(rank=r, size=s) for s in (1, 2, 3) for r in range(s)]
GPR = Unit(['C18', 'C09'], OPT + 'generate_profiles', _gpr_params, post=_gpr_post, cases=_GPR_CASES, bounds=[dict(B=2)], native=_gpr_native,
           abstract={'call:get_rank': lambda ex, st, args, kwargs, node: ex.c.fixed['rank'], 'call:nprocs': lambda ex, st, args, kwargs, node: ex.c.fixed['size'],
                     'call:sample_parameters': _h_sp_list, 'call:broadcast': _h_bcast, 'ForwardModel.compute_error': _h_cerr,
                     'call:enableLogging': _noop, 'call:disableLogging': _noop},
           gen=lambda rng: dict(rng.choice(_GPR_CASES), B=2, obs=[1.0, 2.0]), short='Optimizer.generate_profiles',
           doc='the posterior-spread step: only rank 0 draws the sample list, every rank receives it by broadcast, then ONE compute_error with the '
               'round-robin iterator (its own unit), the observation grid and the binner of the optimizer; its result is returned (1..3 ranks)')
