"""C18 -- parallel post-processing is invariant to how samples are split across ranks.

Under contract: OnlineVariance.update (Welford invariant with ghost sums), OnlineVariance.combine_variance
(for R = 1..3 gathered ranks, every combination of empty / one-sample / many-sample ranks, values symbolic),
the pooled-variance lemma for every R, and the round-robin partition lemma."""
import itertools
import z3
from pyvc.unit import Unit, ObjSpec, Lemma

OV = 'taurex.util.math:OnlineVariance.'


# ------------------------------------------------------------------ update
def _upd_params(c):
    first = c.choice('first')
    S0, S1, S2 = c.real('S0'), c.real('S1'), c.real('S2')
    if first:
        o = ObjSpec('OnlineVariance', count=0.0, wcount=0.0, wcount2=0.0, mean=None, M2=None)
    else:
        o = ObjSpec('OnlineVariance', count=c.real('count'), wcount=c.real('wcount'), wcount2=c.real('wcount2'),
                    mean=c.real('mean'), M2=c.real('M2'))
    return dict(self=o, value=c.real('value'), weight=c.real('weight'), _S0=S0, _S1=S1, _S2=S2)


def upd_pre(c, v):
    d = {'weight': c.Lt(0, v.weight)}
    if v.self.mean is None:
        d['ghost'] = c.And(c.Eq(v._S0, 0), c.Eq(v._S1, 0), c.Eq(v._S2, 0))
    else:
        s = v.self
        d['inv'] = c.And(c.Eq(s.wcount, v._S0), c.Lt(0, v._S0), c.Eq(s.mean * v._S0, v._S1),
                         c.Eq(s.M2 * v._S0, v._S2 * v._S0 - v._S1 * v._S1, scale=v._S2 * v._S0), c.Le(1, s.count))
    return d


def upd_post(c, v0, v1, r):
    """Welford: after the update  wcount = S0', mean*S0' = S1', M2*S0' = S2'*S0' - S1'^2  with
    S0' = S0+w, S1' = S1+w*x, S2' = S2+w*x^2 (so M2/wcount is the weighted two-pass variance)"""
    w, x = v0.weight, v0.value
    S0, S1, S2 = v0._S0 + w, v0._S1 + w * x, v0._S2 + w * x * x
    s = v1.self
    cnt0 = v0.self.count
    return {'count': c.Eq(s.count, cnt0 + 1), 'wcount': c.Eq(s.wcount, S0), 'mean': c.Eq(s.mean * S0, S1),
            'M2': c.Eq(s.M2 * S0, S2 * S0 - S1 * S1, scale=S2 * S0)}


def _mk_ov(d):
    from taurex.util.math import OnlineVariance
    o = OnlineVariance()
    for k in ('count', 'wcount', 'wcount2', 'mean', 'M2'):
        setattr(o, k, d[k])
    return o


def _upd_native(c, p):
    o = _mk_ov(p['self'])
    o.update(p['value'], p['weight'])
    q = dict(p)
    q['self'] = dict(p['self'], count=o.count, wcount=o.wcount, wcount2=o.wcount2, mean=o.mean, M2=o.M2)
    return None, q


def _upd_gen(rng):
    first = rng.random() < 0.3
    xs = [] if first else [(rng.uniform(-5, 5), rng.uniform(0.1, 2)) for _ in range(rng.randint(1, 4))]
    S0 = sum(w for x, w in xs)
    S1 = sum(w * x for x, w in xs)
    S2 = sum(w * x * x for x, w in xs)
    d = dict(first=first, S0=S0, S1=S1, S2=S2, value=rng.uniform(-5, 5), weight=rng.uniform(0.1, 2))
    if not first:
        d.update(count=float(len(xs)), wcount=S0, wcount2=sum(w * w for x, w in xs), mean=S1 / S0, M2=S2 - S1 * S1 / S0)
    return d


UPD = Unit('C18', OV + 'update', _upd_params, pre=upd_pre, post=upd_post, frame_attrs=[('self', a) for a in
           ('count', 'wcount', 'wcount2', 'mean', 'M2')], native=_upd_native, gen=_upd_gen,
           cases=[{'first': True}, {'first': False}], bounds=[{}], short='OnlineVariance.update',
           doc='streaming weighted mean/M2 (Welford) keeps the ghost-sum invariant')


# ------------------------------------------------------------------ combine_variance
# kind of a rank: 0 = received no sample, 1 = exactly one sample, 2 = two or more samples
def _cv_params(c):
    R = c.choice('R')
    ser = c.choice('serialised')
    from pyvc.engine import NanRef
    av, va, cn = [], [], []
    for r in range(R):
        k = c.choice('k%d' % r)
        a, s0, vr = c.real('avg%d' % r), c.real('S0_%d' % r), c.real('var%d' % r)
        if c.mode == 'conc':
            import numpy as np
            nan = (lambda: float('nan')) if ser else (lambda: np.nan)     # a pickled NaN is a new object
        else:
            nan = (lambda r=r: NanRef('copy%d' % r)) if ser else (lambda: NanRef('singleton'))
        av.append(nan() if k == 0 else a)
        va.append(nan() if k < 2 else vr)
        cn.append(0.0 if k == 0 else s0)
    return dict(self=ObjSpec('OnlineVariance'), averages=av, variance=va, counts=cn)


def _cv_ranks(c, v):
    """-> [(S0, S1, S2)] per rank from the exchanged (mean, variance, weight)"""
    out = []
    for a, vr, s0 in zip(v.averages, v.variance, v.counts):
        if c.IsNan(a):
            out.append((0, 0, 0))
        else:
            var = 0 if c.IsNan(vr) else vr
            out.append((s0, a * s0, (var + a * a) * s0))
    return out


def cv_pre(c, v):
    d = {}
    for r, (a, vr, s0) in enumerate(zip(v.averages, v.variance, v.counts)):
        if not c.IsNan(a):
            d['w%d' % r] = c.Lt(0, s0)
        if not c.IsNan(vr):
            d['v%d' % r] = c.Le(0, vr)
    d['some'] = any(not c.IsNan(a) for a in v.averages)
    return d


def cv_post(c, v0, v1, r):
    if c.IsNan(r[0]) or c.IsNan(r[1]):
        return {'finite': False}          # a NaN result can never be the two-pass variance of finite samples
    rk = _cv_ranks(c, v0)
    S0 = sum(x[0] for x in rk)
    S1 = sum(x[1] for x in rk)
    S2 = sum(x[2] for x in rk)
    return {'mean': c.Eq(r[0] * S0, S1),
            'variance': c.Eq(r[1] * S0 * S0, S2 * S0 - S1 * S1, scale=S2 * S0),      # two-pass weighted variance of all samples
            'finite': True}


def _cv_native(c, p):
    from taurex.util.math import OnlineVariance
    o = OnlineVariance()
    avg, var = o.combine_variance(list(p['averages']), list(p['variance']), list(p['counts']))
    return (float(avg), float(var)), p


def _cv_cases():
    out = []
    for R in (1, 2, 3):
        for ks in itertools.product((0, 1, 2), repeat=R):
            if all(k == 0 for k in ks):
                continue
            d = {'R': R, 'serialised': True}
            d.update({'k%d' % r: k for r, k in enumerate(ks)})
            out.append(d)
    out.append({'R': 1, 'serialised': False, 'k0': 1})      # single-process stub: the value itself comes back
    out.append({'R': 1, 'serialised': False, 'k0': 2})
    return out


def _cv_gen(rng):
    case = rng.choice(_cv_cases())
    d = dict(case)
    for r in range(case['R']):
        d['avg%d' % r] = rng.uniform(-3, 3)
        d['S0_%d' % r] = rng.uniform(0.2, 3)
        d['var%d' % r] = rng.uniform(0, 2)
    return d


CV = Unit('C18', OV + 'combine_variance', _cv_params, pre=cv_pre, post=cv_post, native=_cv_native, gen=_cv_gen,
          cases=_cv_cases(), bounds=[{}], short='OnlineVariance.combine_variance', inline=['test_nan'],
          doc='pooled mean/variance of gathered (mean, variance, weight) triples; NaN of a one-sample rank arrives '
              'as a serialised copy (not the np.nan singleton). Code level: R <= 3 ranks (every empty / one / many '
              'pattern); all R by lemma pooled_variance')


# ------------------------------------------------------------------ lemmas
def _pooled(c):
    """for every number of ranks: sum_r cnt_r*((A-avg_r)^2 + var_r) / S0 = S2/S0 - A^2 with A = S1/S0 (induction)"""
    I, R = z3.IntSort(), z3.RealSort()
    avg, var, cnt = z3.Function('avg', I, R), z3.Function('var', I, R), z3.Function('cnt', I, R)
    m, n = z3.Ints('m n')
    A = z3.Real('A')

    def S0(k):
        return c.Sum(0, k, lambda r: cnt(r))

    def S1(k):
        return c.Sum(0, k, lambda r: cnt(r) * avg(r))

    def S2(k):
        return c.Sum(0, k, lambda r: cnt(r) * (var(r) + avg(r) * avg(r)))

    def SQ(k):      # what the second loop accumulates
        return c.Sum(0, k, lambda r: cnt(r) * (A - avg(r)) * (A - avg(r)) + cnt(r) * var(r))

    def P(k):
        return SQ(k) == S2(k) - 2 * A * S1(k) + A * A * S0(k)
    mm = z3.Int('mm')
    return [('base', [], P(0)), ('step', [m >= 0, P(m)], P(m + 1)),
            ('final', [z3.ForAll([mm], z3.Implies(mm >= 0, P(mm))), n >= 0, S0(n) > 0, A * S0(n) == S1(n)],
             c.hint(SQ(n) * S0(n) == S2(n) * S0(n) - S1(n) * S1(n), P(n)))]


Lemma('C18', 'pooled_variance', _pooled, doc='pooled combination = two-pass variance, any number of ranks')


def _partition(c):
    """round-robin split sample_list[rank::size]: every index belongs to exactly one rank"""
    i, size, r1, r2, q1, q2 = z3.Ints('i size r1 r2 q1 q2')
    return [('exists', [size >= 1, i >= 0], z3.And(0 <= i % size, i % size < size, i == (i % size) + size * (i / size),
                                                   i / size >= 0)),
            ('unique', [size >= 1, i >= 0, 0 <= r1, r1 < size, 0 <= r2, r2 < size, q1 >= 0, q2 >= 0,
                        i == r1 + size * q1, i == r2 + size * q2], z3.And(r1 == r2, q1 == q2))]


Lemma('C18', 'round_robin_partition', _partition, doc='exists! (rank, position) with index = rank + size*position')


# ------------------------------------------------------------------ generate_profiles.sample_iter: the round-robin share of one rank
from pyvc.unit import GenTrace
from pyvc.engine import AbsObj
from pyvc.core import PyList, Ref

OPT = 'taurex.optimizer.optimizer:Optimizer.'


def _si_params(c):
    N, size, rank = c.choice('N'), c.choice('size'), c.choice('rank')
    samples = [(('params', i), c.real('w%d' % i)) for i in range(N)]
    return dict(self=ObjSpec('Optimizer'), sample_list=samples, rank=rank, size=size)


def _h_um(ex, st, args, kwargs, node):
    st.trace.append(('ev', ('update_model', args[1])))
    return None


def _noop(ex, st, args, kwargs, node):
    return None


def _si_yields(c, v0, v, k, val):
    """the k-th weight yielded on this rank is that of sample rank + k*size, and the model was updated with exactly that
    sample's parameters immediately before"""
    N, size, rank = (c.fixed['N'], c.fixed['size'], c.fixed['rank']) if c.mode != 'conc' else (c.values['N'], c.values['size'], c.values['rank'])
    i = rank + k * size
    if i >= N:
        return {'no_more_than_its_share': False}
    return {'weight_of_its_own_sample': c.Eq(val, v0.sample_list[i][1])}


def _si_post(c, v0, v1, r):
    N, size, rank = (c.fixed['N'], c.fixed['size'], c.fixed['rank']) if c.mode != 'conc' else (c.values['N'], c.values['size'], c.values['rank'])
    mine = list(range(rank, N, size))
    ups = [e[1] for e in (c.trace or []) if e[0] == 'update_model']
    return {'one_yield_per_sample_of_this_rank': len(r) == len(mine),
            'model_updated_once_per_sample_in_order': [tuple(u) if isinstance(u, (tuple, list)) else u for u in ups] == [('params', i) for i in mine]}


def _si_native(c, p):
    import taurex.mpi as mpi
    import taurex.optimizer.optimizer as mod
    from taurex.optimizer.optimizer import Optimizer
    N, size, rank = c.values['N'], c.values['size'], c.values['rank']
    trace = []
    got = {}

    class _O(Optimizer):
        def sample_parameters(self, solution):
            return iter([(('params', i), p['sample_list'][i][1]) for i in range(N)])

        def update_model(self, v):
            trace.append(('update_model', tuple(v)))
    o = _O.__new__(_O)
    for nm in ('debug', 'info', 'warning', 'error', 'critical'):
        setattr(o, nm, lambda *a, **k: None)

    def compute_error(it, wngrid=None, binner=None):
        got['weights'] = list(it())
        return {}, {}

    class _M:
        pass
    o._model = _M()
    o._model.compute_error = compute_error
    o._binner = None
    saved = (mpi.get_rank, mpi.nprocs, mpi.broadcast)
    mpi.get_rank, mpi.nprocs, mpi.broadcast = (lambda: rank), (lambda: size), (lambda x, rank=0: x if x is not None else [(('params', i), p['sample_list'][i][1]) for i in range(N)])
    try:
        o.generate_profiles(0, None)
    finally:
        mpi.get_rank, mpi.nprocs, mpi.broadcast = saved
    vals = got.get('weights', [])
    return GenTrace(vals, [p] * len(vals)), dict(p, __trace__=trace)


_SI_CASES = [dict(N=n, size=s, rank=r) for n in range(0, 7) for s in (1, 2, 3, 4) for r in range(s)]


def _si_gen(rng):
    d = dict(rng.choice(_SI_CASES))
    for i in range(7):
        d['w%d' % i] = rng.uniform(0.1, 1)
    return d


SI = Unit('C18', OPT + 'generate_profiles.sample_iter', _si_params, yields=_si_yields, post=_si_post, cases=_SI_CASES, bounds=[{}],
          abstract={'call:update_model': _h_um, 'call:enableLogging': _noop, 'call:disableLogging': _noop}, native=_si_native, gen=_si_gen,
          short='Optimizer.generate_profiles.sample_iter',
          doc='the iterator handed to compute_error on one rank processes exactly the samples rank, rank+size, ... in order (0..6 samples, '
              '1..4 ranks, every rank); with lemma round_robin_partition every sample is processed exactly once over all ranks')
