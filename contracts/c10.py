"""C10 -- atmospheric composition is a valid mixture for every input."""
import itertools
import z3
from pyvc.unit import Unit, ObjSpec, Lemma, Bounded
from pyvc.engine import AbsObj

TC = 'taurex.data.profiles.chemistry.taurexchemistry:TaurexChemistry.'
AC = 'taurex.data.profiles.chemistry.autochemistry:AutoChemistry.'
FILL_NAMES = ['H2', 'He', 'N2', 'CO2']


# ------------------------------------------------------------------ fill_atmosphere
def _fa_params(c):
    F = c.choice('F')
    n = c.int('n')
    return dict(self=ObjSpec('TaurexChemistry', _fill_gases=FILL_NAMES[:F], _fill_ratio=[c.real('ratio%d' % i) for i in range(F - 1)]),
                mixratio_remainder=c.array('rem', (n,)))


def fa_pre(c, v):
    return {'n': c.Len(v.mixratio_remainder) >= 0,
            'ratios': c.And(*[c.Le(0, r) for r in v.self._fill_ratio])}


def fa_post(c, v0, v1, r):
    """one array per fill gas; main = rem/(1+sum ratio); fill_i = ratio_{i-1}*main; the fills add up to rem"""
    F = len(v0.self._fill_gases)
    n = c.Len(v0.mixratio_remainder)
    ratios = v0.self._fill_ratio
    tot = 1 + sum(ratios) if ratios else 1
    d = {'count': len(r) == F}
    if len(r) != F:
        return d
    d['lengths'] = c.And(*[c.Len(x) == n for x in r])
    d['main'] = c.Forall(0, n, lambda l: c.Eq(r[0][l] * tot, v0.mixratio_remainder[l]))
    for i in range(1, F):
        d['ratio%d' % i] = c.Forall(0, n, lambda l, i=i: c.Eq(r[i][l], ratios[i - 1] * r[0][l]))
    d['sum_to_remainder'] = c.Forall(0, n, lambda l: c.Eq(sum(r[i][l] for i in range(F)), v0.mixratio_remainder[l]))
    return d


def _mk_chem(F, ratios):
    from taurex.data.profiles.chemistry.taurexchemistry import TaurexChemistry
    o = TaurexChemistry.__new__(TaurexChemistry)
    o._fill_gases = FILL_NAMES[:F]
    o._fill_ratio = list(ratios)
    o._gases = []
    for nm in ('debug', 'info', 'error', 'warning'):
        setattr(o, nm, lambda *a, **k: None)
    return o


def _fa_native(c, p):
    import numpy as np
    o = _mk_chem(len(p['self']['_fill_gases']), p['self']['_fill_ratio'])
    return [np.asarray(x) for x in o.fill_atmosphere(np.array(p['mixratio_remainder'], dtype=float))], p


def _fa_gen(rng):
    F = rng.randint(1, 4)
    n = rng.randint(1, 4)
    d = dict(F=F, n=n, rem=[rng.uniform(0, 1) for _ in range(n)])
    for i in range(F - 1):
        d['ratio%d' % i] = rng.choice([0.0, rng.uniform(0, 3)])
    return d


def _fa_result(ex, st, v0):
    from pyvc.core import PyList
    F = len(v0.self._fill_gases)
    n = ex.c.Len(v0.mixratio_remainder)
    return st.alloc(ex.c, PyList([st.alloc(ex.c, ex.c.fresh_array('fill%d' % i, (n,))) for i in range(F)]))


FA = Unit('C10', TC + 'fill_atmosphere', _fa_params, pre=fa_pre, post=fa_post, native=_fa_native, gen=_fa_gen,
          result=_fa_result, cases=[{'F': k} for k in (1, 2, 3, 4)], bounds=[dict(n=2)], short='TaurexChemistry.fill_atmosphere',
          doc='remainder split among fill gases by ratio (code level: 1..4 fill gases; any number by lemma fill_sums)')


def _fill_sums(c):
    """for any number of fill gases: main*(1 + sum ratio) = rem  =>  main + sum ratio_i*main = rem"""
    I, R = z3.IntSort(), z3.RealSort()
    ratio = z3.Function('ratio', I, R)
    main, rem = z3.Reals('main rem')
    m, n = z3.Ints('m n')
    A = lambda k: c.Sum(0, k, lambda i: ratio(i))
    B = lambda k: c.Sum(0, k, lambda i: ratio(i) * main)
    mm = z3.Int('mm')
    return [('base', [], B(0) == A(0) * main), ('step', [m >= 0, B(m) == A(m) * main], B(m + 1) == A(m + 1) * main),
            ('final', [z3.ForAll([mm], z3.Implies(mm >= 0, B(mm) == A(mm) * main)), n >= 0, main * (1 + A(n)) == rem],
             main + B(n) == rem)]


Lemma('C10', 'fill_sums', _fill_sums, doc='the fill gases always add up to the remainder, any number of fill gases')


# ------------------------------------------------------------------ compute_mu_profile
def _mass(c, name):
    """molecular mass of a named gas: an unknown positive constant per name (formula parser is a bounded item)"""
    if c.mode == 'conc':
        from taurex.util import get_molecular_weight
        return float(get_molecular_weight(name))
    k = z3.Real('mass_' + name)
    if ('mass', name) not in c.uf:
        c.uf[('mass', name)] = k
        c.assumed.append(k > 0)
    return k


def _abs_mass(ex, st, args, kwargs, node):
    return _mass(ex.c, args[-1])


GAS_NAMES = ['H2', 'He', 'H2O', 'CH4']


def _mu_params(c):
    Ng = c.choice('Ng')
    n = c.int('n')
    return dict(self=ObjSpec('AutoChemistry', gases=GAS_NAMES[:Ng], mixProfile=c.array('mix', (Ng, n)), mu_profile=None),
                nlayers=n)


def mu_post(c, v0, v1, r):
    mu = v1.self.mu_profile
    names = v0.self.gases
    n = v0.nlayers
    if mu is None:
        return {'stored': False}
    return {'len': c.Len(mu) == n,
            'weighted_sum': c.Forall(0, n, lambda l: c.Eq(mu[l], sum(v0.self.mixProfile[g, l] * _mass(c, names[g])
                                                                      for g in range(len(names)))))}


def _mu_native(c, p):
    import numpy as np
    from taurex.data.profiles.chemistry.autochemistry import AutoChemistry

    class _C(AutoChemistry):
        gases = property(lambda self: self._g)
        mixProfile = property(lambda self: self._m)
    o = _C.__new__(_C)
    o._g, o._m = list(p['self']['gases']), np.array(p['self']['mixProfile'], dtype=float)
    o.compute_mu_profile(p['nlayers'])
    return None, dict(p, self=dict(p['self'], mu_profile=o.mu_profile))


MU = Unit('C10', AC + 'compute_mu_profile', _mu_params,
          pre=lambda c, v: {'n': c.And(v.nlayers >= 0, c.Shape(v.self.mixProfile)[1] == v.nlayers)},
          post=mu_post, native=_mu_native, cases=[{'Ng': k} for k in (1, 2, 3, 4)], bounds=[dict(n=2)],
          gen=lambda rng: (lambda Ng, n: dict(Ng=Ng, n=n, mix=[[rng.uniform(0, 1) for _ in range(n)] for _ in range(Ng)]))(rng.randint(1, 4), rng.randint(1, 3)),
          abstract={'call:get_molecular_mass': _abs_mass}, frame_attrs=[('self', 'mu_profile')],
          fresh_attr=lambda ex, st, v0, attr: st.alloc(ex.c, ex.c.fresh_array('mu', (v0.nlayers,))),
          short='AutoChemistry.compute_mu_profile', doc='mean molecular weight = ratio-weighted sum of molecular masses')


# ------------------------------------------------------------------ initialize_chemistry
def _abs_init_profile(ex, st, o, args, kwargs, node):
    return None          # Gas.initialize_profile: abstract; the profile it leaves behind is the attribute mixProfile


def _ic_params(c):
    F, G = c.choice('F'), c.choice('G')
    n = c.int('n')
    if c.mode == 'conc':
        gases = [dict(__obj__='Gas', mixProfile=c.array('trace%d' % g, (n,)), molecule='X%d' % g) for g in range(G)]
    else:
        gases = [AbsObj('Gas', g, {'mixProfile': None, 'molecule': 'X%d' % g}) for g in range(G)]
        for g in range(G):
            gases[g].attrs['mixProfile'] = c.array('trace%d' % g, (n,))
    return dict(self=ObjSpec('TaurexChemistry', _fill_gases=FILL_NAMES[:F],
                             _fill_ratio=[c.real('ratio%d' % i) for i in range(F - 1)], _gases=gases,
                             _mix_profile=None, mu_profile=None),
                nlayers=n, temperature_profile=None, pressure_profile=None, altitude_profile=None)


def _traces(v):
    out = []
    for g in v.self._gases:
        out.append(g['mixProfile'] if isinstance(g, dict) else g.mixProfile)
    return out


def ic_pre(c, v):
    tr = _traces(v)
    n = v.nlayers
    return {'n': c.And(n >= 1, *[c.Len(t) == n for t in tr]),
            'ratios': c.And(*[c.Le(0, r) for r in v.self._fill_ratio]),
            'traces_nonneg': c.And(*[c.Forall(0, n, lambda l, t=t: c.Le(0, t[l])) for t in tr])}


def _total(tr, l):
    tot = 0
    for t in tr:
        tot = t[l] + tot
    return tot


def ic_raises(c, v):
    tr = _traces(v)
    return {'InvalidChemistryException': c.Exists(0, v.nlayers, lambda l: c.Lt(1, _total(tr, l))) if tr else False}


def ic_post(c, v0, v1, r):
    """rows = fills then traces (in `gases` order); every column sums to one; every entry non-negative; the fill
    gases are in exactly the requested ratios to the first fill gas"""
    tr = _traces(v0)
    F, G = len(v0.self._fill_gases), len(tr)
    n = v0.nlayers
    M = v1.self._mix_profile
    ratios = v0.self._fill_ratio
    tot = 1 + sum(ratios) if ratios else 1
    if M is None or not hasattr(M, 'shape'):
        return {'stored': False}
    d = {'shape': c.And(c.Shape(M)[0] == F + G, c.Shape(M)[1] == n)}
    if c.mode == 'conc' and not d['shape']:
        return d
    d['traces_kept'] = c.And(*[c.Forall(0, n, lambda l, g=g: c.Eq(M[F + g, l], tr[g][l])) for g in range(G)])
    d['main_fill'] = c.Forall(0, n, lambda l: c.Eq(M[0, l] * tot, 1 - _total(tr, l)))
    for i in range(1, F):
        d['fill_ratio%d' % i] = c.Forall(0, n, lambda l, i=i: c.Eq(M[i, l], ratios[i - 1] * M[0, l]))
    d['columns_sum_to_one'] = c.Forall(0, n, lambda l: c.Eq(sum(M[i, l] for i in range(F + G)), 1))
    d['nonnegative'] = c.And(*[c.Forall(0, n, lambda l, i=i: c.Le(0, M[i, l])) for i in range(F + G)])
    return d


def _ic_native(c, p):
    import numpy as np
    from types import SimpleNamespace as NS
    s = p['self']
    o = _mk_chem(len(s['_fill_gases']), s['_fill_ratio'])
    o._gases = [NS(mixProfile=np.array(g['mixProfile'], dtype=float), initialize_profile=lambda *a, **k: None,
                   molecule=g['molecule']) for g in s['_gases']]
    o._mix_profile = None
    o.compute_mu_profile = lambda n: None          # proved separately (AutoChemistry.compute_mu_profile)
    o.initialize_chemistry(p['nlayers'], None, None, None)
    return None, dict(p, self=dict(s, _mix_profile=o._mix_profile))


def _ic_gen(rng):
    F, G = rng.randint(1, 3), rng.randint(0, 2)
    n = rng.randint(1, 3)
    d = dict(F=F, G=G, n=n)
    for i in range(F - 1):
        d['ratio%d' % i] = rng.choice([0.0, rng.uniform(0, 2)])
    for g in range(G):
        d['trace%d' % g] = [rng.choice([0.0, rng.uniform(0, 0.7), rng.uniform(0, 1.3)]) for _ in range(n)]
    return d


IC = Unit(['C10', 'C06'], TC + 'initialize_chemistry', _ic_params, pre=ic_pre, post=ic_post, raises=ic_raises,
          native=_ic_native, gen=_ic_gen, cases=[{'F': f, 'G': g} for f in (1, 2, 3) for g in (0, 1, 2)],
          bounds=[dict(n=2)], abstract={'Gas.initialize_profile': _abs_init_profile,
                                       'call:compute_mu_profile': lambda ex, st, args, kwargs, node: None},
          inline=['initialize_chemistry', 'mixProfile'], frame_attrs=[('self', '_mix_profile'), ('self', 'mu_profile')],
          short='TaurexChemistry.initialize_chemistry', timeout_ms=15000,
          doc='invalid (trace sum > 1 in some layer) <=> InvalidChemistryException; otherwise a valid mixture. Code '
              'level: 1..3 fill gases x 0..2 trace gases, all layer counts and values')


# ------------------------------------------------------------------ determine_active_inactive
def _dai_params(c):
    pattern = c.choice('avail')          # tuple of booleans, one per gas
    gases = GAS_NAMES[:len(pattern)]
    return dict(self=ObjSpec('AutoChemistry', gases=list(gases), availableActive=[g for g, a in zip(gases, pattern) if a],
                             _active=None, _inactive=None, _active_mask=None, _inactive_mask=None))


def dai_post(c, v0, v1, r):
    s = v1.self
    gases, avail = v0.self.gases, v0.self.availableActive
    act = [(g, i) for i, g in enumerate(gases) if g in avail]
    ina = [(g, i) for i, g in enumerate(gases) if g not in avail]

    def names(x):
        return list(x) if x is not None else None

    def mask(x):
        if x is None:
            return None
        if hasattr(x, 'shape') and not hasattr(x, 'tolist'):
            return [c.Real(0) * 0 + x[i] for i in range(x.shape[0])]
        return [int(t) for t in x.tolist()]
    d = {'active_names': names(s._active) == [g for g, _ in act], 'inactive_names': names(s._inactive) == [g for g, _ in ina]}
    ma, mi = mask(s._active_mask), mask(s._inactive_mask)
    d['active_mask'] = (ma is None) if not act else (ma is not None and len(ma) == len(act) and c.And(*[c.Eq(ma[k], i) for k, (_, i) in enumerate(act)]))
    d['inactive_mask'] = (mi is None) if not ina else (mi is not None and len(mi) == len(ina) and c.And(*[c.Eq(mi[k], i) for k, (_, i) in enumerate(ina)]))
    d['partition'] = sorted([g for g, _ in act] + [g for g, _ in ina]) == sorted(gases)
    return d


def _dai_native(c, p):
    from taurex.data.profiles.chemistry.autochemistry import AutoChemistry

    class _C(AutoChemistry):
        gases = property(lambda self: self._g)
        availableActive = property(lambda self: self._a)
    o = _C.__new__(_C)
    o._g, o._a = list(p['self']['gases']), list(p['self']['availableActive'])
    o.debug = lambda *a, **k: None
    o.determine_active_inactive()
    return None, dict(p, self=dict(p['self'], _active=o._active, _inactive=o._inactive, _active_mask=o._active_mask,
                                   _inactive_mask=o._inactive_mask))


_DAI_CASES = [{'avail': pat} for k in (1, 2, 3) for pat in itertools.product((False, True), repeat=k)]
DAI = Unit('C10', AC + 'determine_active_inactive', _dai_params, post=dai_post, native=_dai_native,
           gen=lambda rng: dict(rng.choice(_DAI_CASES)), cases=_DAI_CASES, bounds=[{}],
           frame_attrs=[('self', a) for a in ('_active', '_inactive', '_active_mask', '_inactive_mask')],
           short='AutoChemistry.determine_active_inactive',
           doc='gases split by availability of opacity data, order preserved, masks are the indices (exhaustive over '
               'availability patterns of up to 3 gases)')
