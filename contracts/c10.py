"""C10 -- atmospheric composition is a valid mixture for every input."""
import itertools
import z3
from pyvc.unit import Unit, ObjSpec, Lemma, Bounded
from pyvc.engine import AbsObj

TC = 'taurex.data.profiles.chemistry.taurexchemistry:TaurexChemistry.'
AC = 'taurex.data.profiles.chemistry.autochemistry:AutoChemistry.'
FILL_NAMES = ['H2', 'He', 'N2', 'CO2']


# ------------------------------------------------------------------ fill_atmosphere
def _fa_params(c):
    F = c.choice('F')
    n = c.int('n')
    return dict(self=ObjSpec('TaurexChemistry', _fill_gases=FILL_NAMES[:F], _fill_ratio=[c.real('ratio%d' % i) for i in range(F - 1)]),
                mixratio_remainder=c.array('rem', (n,)))


def fa_pre(c, v):
    return {'n': c.Len(v.mixratio_remainder) >= 0,
            'ratios': c.And(*[c.Le(0, r) for r in v.self._fill_ratio])}


def fa_post(c, v0, v1, r):
    """one array per fill gas; main = rem/(1+sum ratio); fill_i = ratio_{i-1}*main; the fills add up to rem"""
    F = len(v0.self._fill_gases)
    n = c.Len(v0.mixratio_remainder)
    ratios = v0.self._fill_ratio
    tot = 1 + sum(ratios) if ratios else 1
    d = {'count': len(r) == F}
    if len(r) != F:
        return d
    d['lengths'] = c.And(*[c.Len(x) == n for x in r])
    d['main'] = c.Forall(0, n, lambda l: c.Eq(r[0][l] * tot, v0.mixratio_remainder[l]))
    for i in range(1, F):
        d['ratio%d' % i] = c.Forall(0, n, lambda l, i=i: c.Eq(r[i][l], ratios[i - 1] * r[0][l]))
    d['sum_to_remainder'] = c.Forall(0, n, lambda l: c.Eq(sum(r[i][l] for i in range(F)), v0.mixratio_remainder[l]))
    return d


def _mk_chem(F, ratios):
    from taurex.data.profiles.chemistry.taurexchemistry import TaurexChemistry
    o = TaurexChemistry.__new__(TaurexChemistry)
    o._fill_gases = FILL_NAMES[:F]
    o._fill_ratio = list(ratios)
    o._gases = []
    for nm in ('debug', 'info', 'error', 'warning'):
        setattr(o, nm, lambda *a, **k: None)
    return o


def _fa_native(c, p):
    import numpy as np
    o = _mk_chem(len(p['self']['_fill_gases']), p['self']['_fill_ratio'])
    return [np.asarray(x) for x in o.fill_atmosphere(np.array(p['mixratio_remainder'], dtype=float))], p


def _fa_gen(rng):
    F = rng.randint(1, 4)
    n = rng.randint(1, 4)
    d = dict(F=F, n=n, rem=[rng.uniform(0, 1) for _ in range(n)])
    for i in range(F - 1):
        d['ratio%d' % i] = rng.choice([0.0, rng.uniform(0, 3)])
    return d


def _fa_result(ex, st, v0):
    from pyvc.core import PyList
    F = len(v0.self._fill_gases)
    n = ex.c.Len(v0.mixratio_remainder)
    return st.alloc(ex.c, PyList([st.alloc(ex.c, ex.c.fresh_array('fill%d' % i, (n,))) for i in range(F)]))


FA = Unit('C10', TC + 'fill_atmosphere', _fa_params, pre=fa_pre, post=fa_post, native=_fa_native, gen=_fa_gen,
          result=_fa_result, cases=[{'F': k} for k in (1, 2, 3, 4)], bounds=[dict(n=2)], short='TaurexChemistry.fill_atmosphere',
          doc='remainder split among fill gases by ratio (code level: 1..4 fill gases; any number by lemma fill_sums)')


def _fill_sums(c):
    """for any number of fill gases: main*(1 + sum ratio) = rem  =>  main + sum ratio_i*main = rem"""
    I, R = z3.IntSort(), z3.RealSort()
    ratio = z3.Function('ratio', I, R)
    main, rem = z3.Reals('main rem')
    m, n = z3.Ints('m n')
    A = lambda k: c.Sum(0, k, lambda i: ratio(i))
    B = lambda k: c.Sum(0, k, lambda i: ratio(i) * main)
    mm = z3.Int('mm')
    return [('base', [], B(0) == A(0) * main), ('step', [m >= 0, B(m) == A(m) * main], B(m + 1) == A(m + 1) * main),
            ('final', [z3.ForAll([mm], z3.Implies(mm >= 0, B(mm) == A(mm) * main)), n >= 0, main * (1 + A(n)) == rem],
             main + B(n) == rem)]


Lemma('C10', 'fill_sums', _fill_sums, doc='the fill gases always add up to the remainder, any number of fill gases')


# ------------------------------------------------------------------ compute_mu_profile
def _mass(c, name):
    """molecular mass of a named gas: an unknown positive constant per name (formula parser is a bounded item)"""
    if c.mode == 'conc':
        from taurex.util import get_molecular_weight
        return float(get_molecular_weight(name))
    k = z3.Real('mass_' + name)
    if ('mass', name) not in c.uf:
        c.uf[('mass', name)] = k
        c.assumed.append(k > 0)
    return k


def _abs_mass(ex, st, args, kwargs, node):
    return _mass(ex.c, args[-1])


GAS_NAMES = ['H2', 'He', 'H2O', 'CH4']


def _mu_params(c):
    Ng = c.choice('Ng')
    n = c.int('n')
    return dict(self=ObjSpec('AutoChemistry', gases=GAS_NAMES[:Ng], mixProfile=c.array('mix', (Ng, n)), mu_profile=None),
                nlayers=n)


def mu_post(c, v0, v1, r):
    mu = v1.self.mu_profile
    names = v0.self.gases
    n = v0.nlayers
    if mu is None:
        return {'stored': False}
    return {'len': c.Len(mu) == n,
            'weighted_sum': c.Forall(0, n, lambda l: c.Eq(mu[l], sum(v0.self.mixProfile[g, l] * _mass(c, names[g])
                                                                      for g in range(len(names)))))}


def _mu_native(c, p):
    import numpy as np
    from taurex.data.profiles.chemistry.autochemistry import AutoChemistry

    class _C(AutoChemistry):
        gases = property(lambda self: self._g)
        mixProfile = property(lambda self: self._m)
    o = _C.__new__(_C)
    o._g, o._m = list(p['self']['gases']), np.array(p['self']['mixProfile'], dtype=float)
    o.compute_mu_profile(p['nlayers'])
    return None, dict(p, self=dict(p['self'], mu_profile=o.mu_profile))


MU = Unit('C10', AC + 'compute_mu_profile', _mu_params,
          pre=lambda c, v: {'n': c.And(v.nlayers >= 0, c.Shape(v.self.mixProfile)[1] == v.nlayers)},
          post=mu_post, native=_mu_native, cases=[{'Ng': k} for k in (1, 2, 3, 4)], bounds=[dict(n=2)],
          gen=lambda rng: (lambda Ng, n: dict(Ng=Ng, n=n, mix=[[rng.uniform(0, 1) for _ in range(n)] for _ in range(Ng)]))(rng.randint(1, 4), rng.randint(1, 3)),
          abstract={'call:get_molecular_mass': _abs_mass}, frame_attrs=[('self', 'mu_profile')],
          fresh_attr=lambda ex, st, v0, attr: st.alloc(ex.c, ex.c.fresh_array('mu', (v0.nlayers,))),
          short='AutoChemistry.compute_mu_profile', doc='mean molecular weight = ratio-weighted sum of molecular masses')


# ------------------------------------------------------------------ initialize_chemistry
def _abs_init_profile(ex, st, o, args, kwargs, node):
    return None          # Gas.initialize_profile: abstract; the profile it leaves behind is the attribute mixProfile


def _ic_params(c):
    F, G = c.choice('F'), c.choice('G')
    n = c.int('n')
    if c.mode == 'conc':
        gases = [dict(__obj__='Gas', mixProfile=c.array('trace%d' % g, (n,)), molecule='X%d' % g) for g in range(G)]
    else:
        gases = [AbsObj('Gas', g, {'mixProfile': None, 'molecule': 'X%d' % g}) for g in range(G)]
        for g in range(G):
            gases[g].attrs['mixProfile'] = c.array('trace%d' % g, (n,))
    return dict(self=ObjSpec('TaurexChemistry', _fill_gases=FILL_NAMES[:F],
                             _fill_ratio=[c.real('ratio%d' % i) for i in range(F - 1)], _gases=gases,
                             _mix_profile=None, mu_profile=None),
                nlayers=n, temperature_profile=None, pressure_profile=None, altitude_profile=None)


def _traces(v):
    out = []
    for g in v.self._gases:
        out.append(g['mixProfile'] if isinstance(g, dict) else g.mixProfile)
    return out


def ic_pre(c, v):
    tr = _traces(v)
    n = v.nlayers
    return {'n': c.And(n >= 1, *[c.Len(t) == n for t in tr]),
            'ratios': c.And(*[c.Le(0, r) for r in v.self._fill_ratio]),
            'traces_nonneg': c.And(*[c.Forall(0, n, lambda l, t=t: c.Le(0, t[l])) for t in tr])}


def _total(tr, l):
    tot = 0
    for t in tr:
        tot = t[l] + tot
    return tot


def ic_raises(c, v):
    tr = _traces(v)
    return {'InvalidChemistryException': c.Exists(0, v.nlayers, lambda l: c.Lt(1, _total(tr, l))) if tr else False}


def ic_post(c, v0, v1, r):
    """rows = fills then traces (in `gases` order); every column sums to one; every entry non-negative; the fill
    gases are in exactly the requested ratios to the first fill gas"""
    tr = _traces(v0)
    F, G = len(v0.self._fill_gases), len(tr)
    n = v0.nlayers
    M = v1.self._mix_profile
    ratios = v0.self._fill_ratio
    tot = 1 + sum(ratios) if ratios else 1
    if M is None or not hasattr(M, 'shape'):
        return {'stored': False}
    d = {'shape': c.And(c.Shape(M)[0] == F + G, c.Shape(M)[1] == n)}
    if c.mode == 'conc' and not d['shape']:
        return d
    d['traces_kept'] = c.And(*[c.Forall(0, n, lambda l, g=g: c.Eq(M[F + g, l], tr[g][l])) for g in range(G)])
    d['main_fill'] = c.Forall(0, n, lambda l: c.Eq(M[0, l] * tot, 1 - _total(tr, l)))
    for i in range(1, F):
        d['fill_ratio%d' % i] = c.Forall(0, n, lambda l, i=i: c.Eq(M[i, l], ratios[i - 1] * M[0, l]))
    d['columns_sum_to_one'] = c.Forall(0, n, lambda l: c.Eq(sum(M[i, l] for i in range(F + G)), 1))
    d['nonnegative'] = c.And(*[c.Forall(0, n, lambda l, i=i: c.Le(0, M[i, l])) for i in range(F + G)])
    return d


def _ic_native(c, p):
    import numpy as np
    from types import SimpleNamespace as NS
    s = p['self']
    o = _mk_chem(len(s['_fill_gases']), s['_fill_ratio'])
    o._gases = [NS(mixProfile=np.array(g['mixProfile'], dtype=float), initialize_profile=lambda *a, **k: None,
                   molecule=g['molecule']) for g in s['_gases']]
    o._mix_profile = None
    o.compute_mu_profile = lambda n: None          # proved separately (AutoChemistry.compute_mu_profile)
    o.initialize_chemistry(p['nlayers'], None, None, None)
    return None, dict(p, self=dict(s, _mix_profile=o._mix_profile))


def _ic_gen(rng):
    F, G = rng.randint(1, 3), rng.randint(0, 2)
    n = rng.randint(1, 3)
    d = dict(F=F, G=G, n=n)
    for i in range(F - 1):
        d['ratio%d' % i] = rng.choice([0.0, rng.uniform(0, 2)])
    for g in range(G):
        d['trace%d' % g] = [rng.choice([0.0, rng.uniform(0, 0.7), rng.uniform(0, 1.3)]) for _ in range(n)]
    return d


IC = Unit(['C10', 'C06'], TC + 'initialize_chemistry', _ic_params, pre=ic_pre, post=ic_post, raises=ic_raises,
          native=_ic_native, gen=_ic_gen, cases=[{'F': f, 'G': g} for f in (1, 2, 3) for g in (0, 1, 2)],
          bounds=[dict(n=2)], abstract={'Gas.initialize_profile': _abs_init_profile,
                                       'call:compute_mu_profile': lambda ex, st, args, kwargs, node: None},
          inline=['initialize_chemistry', 'mixProfile'], frame_attrs=[('self', '_mix_profile'), ('self', 'mu_profile')],
          short='TaurexChemistry.initialize_chemistry', timeout_ms=15000,
          doc='invalid (trace sum > 1 in some layer) <=> InvalidChemistryException; otherwise a valid mixture. Code '
              'level: 1..3 fill gases x 0..2 trace gases, all layer counts and values')


# ------------------------------------------------------------------ determine_active_inactive
def _dai_params(c):
    pattern = c.choice('avail')          # tuple of booleans, one per gas
    gases = GAS_NAMES[:len(pattern)]
    return dict(self=ObjSpec('AutoChemistry', gases=list(gases), availableActive=[g for g, a in zip(gases, pattern) if a],
                             _active=None, _inactive=None, _active_mask=None, _inactive_mask=None))


def dai_post(c, v0, v1, r):
    s = v1.self
    gases, avail = v0.self.gases, v0.self.availableActive
    act = [(g, i) for i, g in enumerate(gases) if g in avail]
    ina = [(g, i) for i, g in enumerate(gases) if g not in avail]

    def names(x):
        return list(x) if x is not None else None

    def mask(x):
        if x is None:
            return None
        if hasattr(x, 'shape') and not hasattr(x, 'tolist'):
            return [c.Real(0) * 0 + x[i] for i in range(x.shape[0])]
        return [int(t) for t in x.tolist()]
    d = {'active_names': names(s._active) == [g for g, _ in act], 'inactive_names': names(s._inactive) == [g for g, _ in ina]}
    ma, mi = mask(s._active_mask), mask(s._inactive_mask)
    d['active_mask'] = (ma is None) if not act else (ma is not None and len(ma) == len(act) and c.And(*[c.Eq(ma[k], i) for k, (_, i) in enumerate(act)]))
    d['inactive_mask'] = (mi is None) if not ina else (mi is not None and len(mi) == len(ina) and c.And(*[c.Eq(mi[k], i) for k, (_, i) in enumerate(ina)]))
    d['partition'] = sorted([g for g, _ in act] + [g for g, _ in ina]) == sorted(gases)
    return d


def _dai_native(c, p):
    from taurex.data.profiles.chemistry.autochemistry import AutoChemistry

    class _C(AutoChemistry):
        gases = property(lambda self: self._g)
        availableActive = property(lambda self: self._a)
    o = _C.__new__(_C)
    o._g, o._a = list(p['self']['gases']), list(p['self']['availableActive'])
    o.debug = lambda *a, **k: None
    o.determine_active_inactive()
    return None, dict(p, self=dict(p['self'], _active=o._active, _inactive=o._inactive, _active_mask=o._active_mask,
                                   _inactive_mask=o._inactive_mask))


_DAI_CASES = [{'avail': pat} for k in (1, 2, 3) for pat in itertools.product((False, True), repeat=k)]
DAI = Unit('C10', AC + 'determine_active_inactive', _dai_params, post=dai_post, native=_dai_native,
           gen=lambda rng: dict(rng.choice(_DAI_CASES)), cases=_DAI_CASES, bounds=[{}],
           frame_attrs=[('self', a) for a in ('_active', '_inactive', '_active_mask', '_inactive_mask')],
           short='AutoChemistry.determine_active_inactive',
           doc='gases split by availability of opacity data, order preserved, masks are the indices (exhaustive over '
               'availability patterns of up to 3 gases)')


from contracts import c12 as _c12          # movingaverage is used by contract (unit MA)


# ================================================================== built-in abundance profiles: one finite value per layer, inside
# the range of the control values, for every layer count >= 2
GAS = 'taurex.data.profiles.chemistry.gas.'


def _gas_native(modname, clsname, ctor, attr):
    def native(c, p):
        import importlib
        import numpy as np
        K = getattr(importlib.import_module(GAS + modname), clsname)
        o = K(**ctor(p))
        o.initialize_profile(nlayers=p['nlayers'], temperature_profile=np.array(p['temperature_profile'], dtype=float),
                             pressure_profile=np.array(p['pressure_profile'], dtype=float), altitude_profile=None)
        return None, dict(p, self=dict(p['self'], **{attr: np.asarray(getattr(o, attr), dtype=float)}))
    return native


def _atm(c, n):
    return dict(nlayers=n, temperature_profile=c.array('T', (n,)), pressure_profile=c.array('P', (n,)), altitude_profile=None)


def _atm_pre(c, v):
    n = v.nlayers
    return {'layers': n >= 2,
            'pressure_decreasing_positive': c.And(c.Forall(0, n, lambda i: v.pressure_profile[i] > 0),
                                                  c.Forall2((0, n), (0, n), lambda i, j: c.Implies(i < j, v.pressure_profile[i] > v.pressure_profile[j]))),
            'temperature_positive': c.Forall(0, n, lambda i: v.temperature_profile[i] > 0)}


def _atm_gen(rng, n=None):
    n = n or rng.randint(2, 12)
    P = sorted((10 ** rng.uniform(-4, 6) for _ in range(n)), reverse=True)
    return dict(n=n, P=P, T=[rng.uniform(100, 3000) for _ in range(n)])


# ------------------------------------------------------------------ ConstantGas
CG = Unit('C10', GAS + 'constantgas:ConstantGas.initialize_profile',
          lambda c: dict(self=ObjSpec('ConstantGas', _mix_ratio=c.real('mix'), _mix_array=None), **_atm(c, c.int('n'))),
          pre=_atm_pre, frame_attrs=['_mix_array'],
          post=lambda c, v0, v1, r: {'one_value_per_layer': c.Len(v1.self._mix_array) == v0.nlayers,
                                     'the_control_value': c.Forall(0, v0.nlayers, lambda i: c.Eq(v1.self._mix_array[i], v0.self._mix_ratio))},
          native=_gas_native('constantgas', 'ConstantGas', lambda p: dict(molecule_name='H2O', mix_ratio=p['self']['_mix_ratio']), '_mix_array'),
          gen=lambda rng: dict(_atm_gen(rng), mix=10 ** rng.uniform(-12, -1)), bounds=[dict(n=2), dict(n=3)],
          short='ConstantGas.initialize_profile', doc='constant abundance: one entry per layer, all equal to the control value')


# ------------------------------------------------------------------ TwoPointGas: straight line in (log10 P, log10 mix) through the end points
def _tp_line(c, v0, i):
    ls, lt = c.log10(v0.self._mix_surface), c.log10(v0.self._mix_top)
    ps, pt = c.log10(v0.pressure_profile[0]), c.log10(v0.pressure_profile[v0.nlayers - 1])
    a = (ls - lt) / (ps - pt)
    b = ls - a * ps
    return a * c.log10(v0.pressure_profile[i]) + b


def _tp_post(c, v0, v1, r):
    n = v0.nlayers
    m = v1.self._mix_profile
    return {'one_value_per_layer': c.Len(m) == n,
            'surface_and_top_are_the_control_values': c.And(c.Eq(m[0], v0.self._mix_surface), c.Eq(m[n - 1], v0.self._mix_top)),
            'log_log_line_between': c.Forall(1, n - 1, lambda i: c.Eq(m[i], c.pow10(_tp_line(c, v0, i)))),
            'between_the_control_values': c.ForallH(0, n, lambda i: _tp_between(c, v0, m, i))}


def _tp_between(c, v0, m, i):
    s, t = v0.self._mix_surface, v0.self._mix_top
    lo, hi = c.Min(s, t), c.Max(s, t)
    goal = c.And(lo <= m[i], m[i] <= hi)
    if c.mode != 'sym':
        return c.And(lo * (1 - 1e-9) <= m[i], m[i] <= hi * (1 + 1e-9))
    n = v0.nlayers
    ls, lt = c.log10(s), c.log10(t)
    ps, pt = c.log10(v0.pressure_profile[0]), c.log10(v0.pressure_profile[n - 1])
    x = c.log10(v0.pressure_profile[i])
    y = _tp_line(c, v0, i)
    lam, dlam = c.define('lam', (x - pt) / (ps - pt))
    a = (ls - lt) / (ps - pt)
    return c.hint(goal,
                  c.And(pt <= x, x <= ps, pt < ps),                                   # log10 increasing, pressures decreasing
                  c.And(0 <= lam, lam <= 1, lam * (ps - pt) == x - pt),
                  a * (ps - pt) == ls - lt,
                  y == lam * ls + (1 - lam) * lt,
                  c.And(c.Min(ls, lt) <= y, y <= c.Max(ls, lt)),
                  c.And(c.pow10(ls) == s, c.pow10(lt) == t),
                  c.Implies(c.And(0 < i, i < n - 1), c.And(lo <= c.pow10(y), c.pow10(y) <= hi)),
                  defs=[dlam])


TPG = Unit('C10', GAS + 'twopointgas:TwoPointGas.initialize_profile',
           lambda c: dict(self=ObjSpec('TwoPointGas', _mix_surface=c.real('surf'), _mix_top=c.real('top'), _mix_profile=None), **_atm(c, c.int('n'))),
           pre=lambda c, v: dict(_atm_pre(c, v), controls_positive=c.And(v.self._mix_surface > 0, v.self._mix_top > 0)),
           post=_tp_post, frame_attrs=['_mix_profile'], safety=('index', 'div', 'domain'),
           native=_gas_native('twopointgas', 'TwoPointGas', lambda p: dict(molecule_name='H2O', mix_ratio_surface=p['self']['_mix_surface'],
                                                                         mix_ratio_top=p['self']['_mix_top']), '_mix_profile'),
           gen=lambda rng: dict(_atm_gen(rng), surf=10 ** rng.uniform(-12, -1), top=10 ** rng.uniform(-12, -1)), bounds=[dict(n=2), dict(n=4)],
           short='TwoPointGas.initialize_profile',
           doc='two-point abundance: the control values at the bottom and top layer, the log-log straight line through them between')


def _line_between(c):
    """a straight line through (xs, ys) and (xt, yt) stays between ys and yt for x between xs and xt"""
    xs, xt, ys, yt, x = z3.Reals('xs xt ys yt x')
    a = (ys - yt) / (xs - xt)
    y = a * x + (ys - a * xs)
    lam = z3.Real('lam')
    return [('convex_combination', [xt < xs, xt <= x, x <= xs, lam == (x - xt) / (xs - xt)],
             c.hint(z3.And(y == lam * ys + (1 - lam) * yt, 0 <= lam, lam <= 1), lam * (xs - xt) == x - xt, a * (xs - xt) == ys - yt)),
            ('between', [0 <= lam, lam <= 1, ys <= yt], z3.And(ys <= lam * ys + (1 - lam) * yt, lam * ys + (1 - lam) * yt <= yt)),
            ('between_rev', [0 <= lam, lam <= 1, yt <= ys], z3.And(yt <= lam * ys + (1 - lam) * yt, lam * ys + (1 - lam) * yt <= ys))]


Lemma('C10', 'line_between_its_end_points', _line_between,
      doc='with log10 / 10** increasing (assumed axioms of the uninterpreted transcendentals) the two-point abundance lies between its '
          'control values in every layer')


# ------------------------------------------------------------------ ArrayGas: the given array, interpolated onto the layers
def _ag_post(c, v0, v1, r):
    n, A = v0.nlayers, v0.self._mix_ratio_array
    K = c.Len(A)
    m = v1.self._mix_array
    d = {'one_value_per_layer': c.Len(m) == n}
    if c.mode == 'conc':
        lo, hi = min(A), max(A)
        d['within_the_control_values'] = all(lo - 1e-12 * abs(lo) <= m[i] <= hi + 1e-12 * abs(hi) for i in range(n))
        d['ends_are_the_end_values'] = c.And(c.Eq(m[0], A[0]), c.Eq(m[n - 1], A[K - 1]))
        d['same_layer_count_reproduces_the_array'] = (n != K) or all(c.Eq(m[i], A[i]) for i in range(n))
        return d
    lo, hi = z3.Reals('lo? hi?')
    d['within_the_control_values'] = z3.ForAll([lo, hi], z3.Implies(c.Forall(0, K, lambda j: z3.And(lo <= A[j], A[j] <= hi)),
                                                                   c.Forall(0, n, lambda i: z3.And(lo <= m[i], m[i] <= hi))))
    goal = c.And(c.Eq(m[0], A[0]), c.Eq(m[n - 1], A[K - 1]))
    if c.mode != 'sym':
        d['ends_are_the_end_values'] = goal
        return d
    one = lambda k: z3.ToReal(k - 1) / z3.ToReal(k - 1) == 1
    d['ends_are_the_end_values'] = c.hint(goal, c.And(one(n), one(K)), 1 / z3.ToReal(K - 1) > 0, c.Eq(m[0], A[0]))
    return d


def _ag_native(c, p):
    import numpy as np
    from taurex.data.profiles.chemistry.gas.arraygas import ArrayGas
    o = ArrayGas(molecule_name='H2O', mix_ratio_array=list(p['self']['_mix_ratio_array']))
    o.initialize_profile(nlayers=p['nlayers'], temperature_profile=np.array(p['temperature_profile'], dtype=float),
                         pressure_profile=np.array(p['pressure_profile'], dtype=float), altitude_profile=None)
    return None, dict(p, self=dict(p['self'], _mix_array=np.asarray(o._mix_array, dtype=float)))


AG = Unit('C10', GAS + 'arraygas:ArrayGas.initialize_profile',
          lambda c: dict(self=ObjSpec('ArrayGas', _mix_ratio_array=c.array('A', (c.int('K'),)), _mix_array=None), **_atm(c, c.int('n'))),
          pre=lambda c, v: dict(_atm_pre(c, v), at_least_two_control_values=c.Len(v.self._mix_ratio_array) >= 2),
          post=_ag_post, frame_attrs=['_mix_array'], safety=('index', 'div', 'sorted'), native=_ag_native,
          gen=lambda rng: (lambda K: dict(_atm_gen(rng, rng.choice([K, None])), K=K, A=[10 ** rng.uniform(-12, -1) for _ in range(K)]))(rng.randint(2, 7)),
          bounds=[dict(n=2, K=2), dict(n=3, K=2)], short='ArrayGas.initialize_profile',
          doc='array abundance: one value per layer, inside the range of the given values, first/last layer = first/last value '
              '(np.linspace, np.interp: assumed models; a single control value is outside the linspace model)')


# ------------------------------------------------------------------ PowerGas: (1/sqrt(ms) + 1/sqrt(Ad))**-2, never above the deep value
_PG_CASES = [dict(known=k, given=g) for k in (True, False) for g in ('all', 'none', 'surface')]


def _pg_params(c):
    g = c.choice('given')
    mk = lambda nm, on: c.real(nm) if on else None
    return dict(self=ObjSpec('PowerGas', _profile_type='H2O', _mix_surface=mk('ms', g in ('all', 'surface')), _alpha=mk('alpha', g == 'all'),
                             _beta=mk('beta', g == 'all'), _gamma=mk('gamma', g == 'all'), _mix_profile=None), **_atm(c, c.int('n')))


def _pg_known(ex, st, args, kwargs, node):
    """check_known: coefficients of the built-in table for a known molecule (positive deep abundance), four None otherwise"""
    c = ex.c
    if not c.fixed['known']:
        return (None, None, None, None)
    A = c.real('tabA')
    st.assume(A > 0)
    return (c.real('taba'), c.real('tabb'), c.real('tabg'), A)


def _pg_coeffs(c, v0):
    s = v0.self
    known = (c.fixed if c.mode != 'conc' else c.values)['known']
    tab = (c.real('taba'), c.real('tabb'), c.real('tabg'), c.real('tabA')) if known else (None,) * 4
    pick = lambda own, t: own if own is not None else t
    return pick(s._alpha, tab[0]), pick(s._beta, tab[1]), pick(s._gamma, tab[2]), pick(s._mix_surface, tab[3])


def _pg_raises(c, v0):
    return {'ValueError': any(x is None for x in _pg_coeffs(c, v0))}


def _pg_post(c, v0, v1, r):
    n = v0.nlayers
    al, be, ga, ms = _pg_coeffs(c, v0)
    m = v1.self._mix_profile
    Ad = lambda i: c.pow10(-ga) * c.pow(v0.pressure_profile[i] * 1e-5, al) * c.pow10(be / v0.temperature_profile[i])
    d = {'one_value_per_layer': c.Len(m) == n,
         'documented_law': c.Forall(0, n, lambda i: c.Eq(m[i] * ((1 / c.sqrt(ms) + 1 / c.sqrt(Ad(i))) * (1 / c.sqrt(ms) + 1 / c.sqrt(Ad(i)))), 1.0))}
    if c.mode == 'conc':
        d['positive_at_most_the_deep_value'] = all(0 < m[i] <= ms * (1 + 1e-12) for i in range(n))
        return d
    d['positive_at_most_the_deep_value'] = c.ForallH(0, n, lambda i: _pg_bound(c, m[i], ms, Ad(i)))
    return d


def _pg_bound(c, mi, ms, ad):
    a, da = c.define('a', 1 / c.sqrt(ms))
    b, db = c.define('b', 1 / c.sqrt(ad))
    return c.hint(c.And(0 < mi, mi <= ms), c.And(ad > 0, c.sqrt(ms) > 0, c.sqrt(ad) > 0), c.And(a > 0, b > 0), a * a * ms == 1,
                  mi * ((a + b) * (a + b)) == 1, (a + b) * (a + b) >= a * a, c.And(mi > 0, mi * (a * a) <= 1), defs=[da, db])


def _pg_native(c, p):
    import numpy as np
    from taurex.data.profiles.chemistry.gas.powergas import PowerGas
    s = p['self']
    o = PowerGas(molecule_name='H2O', profile_type='H2O', mix_ratio_surface=s['_mix_surface'], alpha=s['_alpha'], beta=s['_beta'], gamma=s['_gamma'])
    o.debug = lambda *a, **k: None
    if c.values['known']:
        tab = (c.values['taba'], c.values['tabb'], c.values['tabg'], c.values['tabA'])
    else:
        tab = (None,) * 4
    o.check_known = lambda molecule_name='H2O': tab
    o.initialize_profile(p['nlayers'], np.array(p['temperature_profile'], dtype=float), np.array(p['pressure_profile'], dtype=float), None)
    return None, dict(p, self=dict(s, _mix_profile=np.asarray(o._mix_profile, dtype=float)))


def _pg_gen(rng):
    d = _atm_gen(rng)
    d.update(known=rng.choice([True, False]), given=rng.choice(['all', 'none', 'surface']), ms=10 ** rng.uniform(-10, -1), alpha=rng.uniform(0.5, 2.5),
             beta=rng.uniform(1e4, 6e4), gamma=rng.uniform(5, 25), taba=rng.uniform(0.5, 2.5), tabb=rng.uniform(1e4, 6e4), tabg=rng.uniform(5, 25),
             tabA=10 ** rng.uniform(-10, -1))
    d['T'] = [rng.uniform(1000, 4000) for _ in range(d['n'])]
    return d


PG = Unit('C10', GAS + 'powergas:PowerGas.initialize_profile', _pg_params,
          pre=lambda c, v: dict(_atm_pre(c, v), deep_value_positive=(v.self._mix_surface > 0) if v.self._mix_surface is not None else True),
          post=_pg_post, raises=_pg_raises, frame_attrs=['_mix_profile'], safety=('index', 'div', 'domain'), cases=_PG_CASES,
          abstract={'call:check_known': _pg_known}, native=_pg_native, gen=_pg_gen, bounds=[dict(n=2)], short='PowerGas.initialize_profile',
          doc='power-law abundance: one positive value per layer, never above the deep-atmosphere value; coefficients the user left out come '
              'from the built-in table (check_known abstract: any coefficients, positive deep value), a missing coefficient raises ValueError; '
              'x**alpha uninterpreted, positive for a positive base')


# ------------------------------------------------------------------ TwoLayerGas: two plateaus joined in log-log space, smoothed
def _tl_params(c):
    return dict(self=ObjSpec('TwoLayerGas', _mix_surface=c.real('surf'), _mix_top=c.real('top'), _mix_ratio_pressure=c.real('Pmix'),
                             _mix_ratio_smoothing=c.real('smooth'), _mix_profile=None), **_atm(c, c.int('n')))


def _tl_pre(c, v):
    s = v.self
    return dict(_atm_pre(c, v), controls_positive=c.And(s._mix_surface > 0, s._mix_top > 0, s._mix_ratio_pressure > 0),
                smoothing_window_in_percent=c.And(s._mix_ratio_smoothing > 0, s._mix_ratio_smoothing < 100))


def _tl_post(c, v0, v1, r):
    n = v0.nlayers
    m = v1.self._mix_profile
    s, t = v0.self._mix_surface, v0.self._mix_top
    lo, hi = c.Min(s, t), c.Max(s, t)
    tol = 1e-9 if c.mode == 'conc' else 0
    d = {'one_value_per_layer': c.Len(m) == n}
    plain = lambda i: c.And(lo * (1 - tol) <= m[i], m[i] <= hi * (1 + tol))
    if c.mode != 'sym':
        d['within_the_control_values'] = c.Forall(0, n, plain)
        return d
    # ghost access to the locals at the return: the interpolated plateau profile, the smoothed core, window and border
    from pyvc.core import View
    loc = View(c, c.raw['state'].env, c.raw['state'].heap, c.raw['state'].trace)
    # named through ghost witnesses, not through the function's local variables: the movingaverage call (its window argument and
    # its result, whose power of ten is the smoothed core) and the int() taken afterwards (the border)
    cenv, cret = loc.ghost('call:movingaverage')[0]
    w, ma = cenv['n'], loc.wrap(cret)
    b = loc.ghost_after('call:movingaverage', 'int')[0][0]

    class _Core:
        def __getitem__(self, j):
            return c.pow10(ma[j])
    core = _Core()
    R = c.last_interp                                     # log10 of the plateau profile (np.interp result)
    ll, lh = c.log10(lo), c.log10(hi)
    Rk = lambda k: R.elem((k,))
    lem_R = c.ForallH(0, n, lambda k: c.And(ll <= Rk(k), Rk(k) <= lh))                      # interp stays between neighbouring nodes
    ends = c.And(c.pow10(ll) == lo, c.pow10(lh) == hi)

    chem = lambda k: c.pow10(Rk(k))      # the plateau profile as interpolated (the array itself is overwritten through the final view)

    def chem_k(k):
        inR = c.And(ll <= Rk(k), Rk(k) <= lh)
        g = c.And(lo <= chem(k), chem(k) <= hi, ll <= c.log10(chem(k)), c.log10(chem(k)) <= lh)
        return c.hint(g, inR, c.pure(g, inR, ends), final_uses=1)
    lem_chem = c.ForallH(0, n, chem_k)
    nc = n - w + 1
    S = lambda j: c.Sum(j, j + w, lambda q: c.log10(chem(q)))
    lem_sum = c.ForallH(0, nc, lambda j: c.hint(c.And(w * ll <= S(j), S(j) <= w * lh), c.sum_between(j, j + w, lambda q: c.log10(chem(q)), ll, lh)))

    def core_j(j):
        mj = ma[j]                                         # core = 10**movingaverage(...): the window mean of the logarithms
        a = mj * w == S(j)
        bnd = c.And(w * ll <= S(j), S(j) <= w * lh)
        inm = c.And(ll <= mj, mj <= lh)
        g = c.And(lo <= core[j], core[j] <= hi)
        return c.hint(g, core[j] == c.pow10(mj), a, bnd, c.pure(inm, a, bnd, w >= 1), c.pure(g, inm, core[j] == c.pow10(mj), ends), final_uses=1)
    lem_core = c.ForallH(0, nc, core_j)
    d['within_the_control_values'] = c.hint(c.Forall(0, n, plain), c.And(c.pow10(ll) == lo, c.pow10(lh) == hi, ll <= lh), lem_R, lem_chem,
                                            c.And(w >= 1, w <= n, c.Len(ma) == nc, 2 * b == w - 1), lem_sum, lem_core)
    return d


TLG = Unit('C10', GAS + 'twolayergas:TwoLayerGas.initialize_profile', _tl_params, pre=_tl_pre, post=_tl_post, frame_attrs=['_mix_profile'],
           safety=('index', 'div', 'domain', 'sorted'),
           native=_gas_native('twolayergas', 'TwoLayerGas', lambda p: dict(molecule_name='H2O', mix_ratio_surface=p['self']['_mix_surface'],
                                                                         mix_ratio_top=p['self']['_mix_top'], mix_ratio_P=p['self']['_mix_ratio_pressure'],
                                                                         mix_ratio_smoothing=p['self']['_mix_ratio_smoothing']), '_mix_profile'),
           gen=lambda rng: dict(_atm_gen(rng, rng.randint(2, 60)), surf=10 ** rng.uniform(-12, -1), top=10 ** rng.uniform(-12, -1),
                                Pmix=10 ** rng.uniform(-4, 6), smooth=rng.choice([10, 10, rng.uniform(1, 99)])),
           bounds=[dict(n=3)], short='TwoLayerGas.initialize_profile',
           doc='two-layer abundance: one value per layer, inside the range of the two control values, for every layer count >= 2')


# ------------------------------------------------------------------ bounded: molecular masses from the formula parser
from pyvc.unit import Bounded


def _ref_formula(s, table):
    """independent recursive-descent reading of a chemical formula: element symbols, counts, nested (), [] and {} groups;
    anything else (charges, isotopes marks) contributes nothing"""
    pos = 0

    def group(closing):
        nonlocal pos
        total = {}
        while pos < len(s):
            ch = s[pos]
            if ch in '([{':
                pos += 1
                sub = group({'(': ')', '[': ']', '{': '}'}[ch])
                n = number()
                for k, v in sub.items():
                    total[k] = total.get(k, 0) + v * n
            elif ch in ')]}':
                pos += 1
                return total
            elif ch.isupper():
                sym = ch
                pos += 1
                if pos < len(s) and s[pos].islower() and (sym + s[pos]) in table:
                    sym += s[pos]
                    pos += 1
                elif pos < len(s) and s[pos].islower():
                    sym += s[pos]
                    pos += 1
                n = number()
                if sym in table:
                    total[sym] = total.get(sym, 0) + n
            else:
                pos += 1
        return total

    def number():
        nonlocal pos
        j = pos
        while j < len(s) and s[j].isdigit():
            j += 1
        n = int(s[pos:j]) if j > pos else 1
        pos = j
        return n
    return group(None)


_FORMULAS = ['H2', 'He', 'H2O', 'CH4', 'CO', 'CO2', 'NH3', 'N2', 'O2', 'O3', 'TiO', 'VO', 'Na', 'K', 'HCN', 'C2H2', 'C2H4', 'C2H6', 'H2S', 'SO2', 'PH3',
             'SiO', 'FeH', 'AlO', 'MgH', 'CaH', 'CrH', 'NaH', 'KOH', 'HCl', 'HF', 'LiH', 'NO', 'NO2', 'N2O', 'OH', 'CH', 'CN', 'CS', 'SiH4', 'H3+', 'H-',
             'e-', 'C6H12O6', 'C10H8', 'Ca(OH)2', 'Al2(SO4)3', 'Mg2SiO4', 'Fe(CN)6', 'K4[Fe(CN)6]', '(NH4)2SO4', '((CH3)2N)2', 'Fe2O3', 'MgSiO3',
             'Al2O3', 'CaTiO3', 'H2SO4', 'C12H26', 'NaCl', 'KCl', 'ZnS', 'MnS', 'Na2S', 'Cr', 'Fe', 'Ni', 'C60', 'H2O2', 'CH3OH', 'CH3CN', 'HC3N']


def _b_weights(seed, tier):
    import random
    from taurex.util.util import calculate_weight, split_molecule_elements, mass
    rng = random.Random(seed)
    forms = list(_FORMULAS)
    syms = [k for k in mass if k.isalpha()]
    for _ in range(60 if tier == 'quick' else 2000):              # random well-formed formulas with nested groups
        def rand(depth=0):
            parts = []
            for _ in range(rng.randint(1, 3)):
                if depth < 2 and rng.random() < 0.25:
                    op, cl = rng.choice(['()', '[]', '{}'])
                    parts.append(op + rand(depth + 1) + cl + (str(rng.randint(2, 12)) if rng.random() < 0.7 else ''))
                else:
                    parts.append(rng.choice(syms) + (str(rng.randint(2, 24)) if rng.random() < 0.6 else ''))
            return ''.join(parts)
        forms.append(rand())
    fails, samples = [], []
    for f in forms:
        want = _ref_formula(f, mass)
        ww = sum(mass[k] * v for k, v in want.items())
        try:
            got = split_molecule_elements(f)
            gw = calculate_weight(f)
        except Exception as e:
            fails.append({'clause': 'no_exception', 'inputs': {'formula': f}, 'observed': repr(e)})
            continue
        if {k: v for k, v in got.items() if v} != {k: v for k, v in want.items() if v} or abs(gw - ww) > 1e-9 * max(1.0, ww):
            fails.append({'clause': 'element_counts_and_weight', 'inputs': {'formula': f}, 'observed': {'counts': got, 'weight': gw},
                          'expected': {'counts': want, 'weight': ww}})
        if len(samples) < 3:
            samples.append({'formula': f, 'weight': gw})
    return {'cases': len(forms), 'failures': fails, 'samples': samples,
            'bound': '%d formulas: %d from the literature incl. ions and nested groups, the rest random well-formed formulas over the mass table' % (len(forms), len(_FORMULAS))}


Bounded('C10', 'molecular_weight_of_formulas', _b_weights,
        doc='split_molecule_elements / calculate_weight (regex tokeniser, recursion on bracket groups): outside the verified subset; '
            'run-time contract against an independent formula reader')


# ------------------------------------------------------------------ Chemistry.__init__: which molecules can absorb follows the opacity mode
from pyvc.engine import AbsObj
from pyvc.core import PyList

_XS_MOLS, _KT_MOLS = ['H2O', 'CH4', 'CO2'], ['H2O', 'NH3']


def _ch_params(c):
    return dict(self=ObjSpec('Chemistry', mu_profile='<unset>', _avail_active='<unset>'), name='chem')


def _h_gc_new(ex, st, args, kwargs, node):
    return AbsObj('GlobalCache', 0, {})


def _h_gc_get(ex, st, o, args, kwargs, node):
    key = args[0]
    st.trace.append(('ev', ('GlobalCache.get', key)))
    fx = ex.c.fixed
    if key == 'opacity_method':
        return fx['method']
    if key == 'deactive_molecules':
        return None if fx['deactive'] is None else st.alloc(ex.c, PyList(list(fx['deactive'])))
    raise KeyError(key)


def _h_cache_new(kind):
    return lambda ex, st, args, kwargs, node: AbsObj(kind, 0, {})


def _h_find(kind, mols):
    def h(ex, st, o, args, kwargs, node):
        st.trace.append(('ev', ('find_list_of_molecules', kind)))
        return st.alloc(ex.c, PyList(list(mols)))
    return h


def _ch_post(c, v0, v1, r):
    fx = c.fixed if c.mode != 'conc' else c.values
    src = _KT_MOLS if fx['method'] == 'ktables' else _XS_MOLS
    want = [m for m in src if fx['deactive'] is None or m not in fx['deactive']]
    if c.mode == 'conc':
        got, asked = v1.self['_avail_active'], [e[1] for e in (c.trace or []) if e[0] == 'find_list_of_molecules']
    else:
        ref = v1.self.ref('_avail_active')
        cell = c.raw['state'].heap.get(ref.id) if hasattr(ref, 'id') else None
        got = list(cell.items) if isinstance(cell, PyList) else None
        asked = [e[1] for e in (c.trace or []) if e[0] == 'find_list_of_molecules']
    return {'asks_the_cache_of_the_current_opacity_mode_once': asked == (['KTableCache'] if fx['method'] == 'ktables' else ['OpacityCache']),
            'available_minus_deactivated_in_order': got == want}


def _ch_native(c, p):
    import taurex.data.profiles.chemistry.chemistry as mod
    fx = c.values
    trace = []

    class _GC:
        def __getitem__(self, k):
            return {'opacity_method': fx['method'], 'deactive_molecules': None if fx['deactive'] is None else list(fx['deactive'])}[k]

    def cache(kind, mols):
        class _C:
            def find_list_of_molecules(self):
                trace.append(('find_list_of_molecules', kind))
                return list(mols)
        return _C
    saved = (mod.GlobalCache, mod.OpacityCache, mod.KTableCache)
    mod.GlobalCache, mod.OpacityCache, mod.KTableCache = _GC, cache('OpacityCache', _XS_MOLS), cache('KTableCache', _KT_MOLS)
    try:
        o = mod.Chemistry('chem')
    finally:
        mod.GlobalCache, mod.OpacityCache, mod.KTableCache = saved
    return None, dict(p, self=dict(p['self'], _avail_active=list(o._avail_active)), __trace__=trace)


_CH_CASES = [dict(method=m, deactive=d) for m in ('ktables', 'xsec', None) for d in (None, (), ('H2O',), ('CH4', 'NH3'))]
CHI = Unit(['C10', 'C20'], 'taurex.data.profiles.chemistry.chemistry:Chemistry.__init__', _ch_params, post=_ch_post, cases=_CH_CASES, bounds=[{}],
           abstract={'new:GlobalCache': _h_gc_new, 'GlobalCache.__getitem__': _h_gc_get, 'new:OpacityCache': _h_cache_new('OpacityCache'),
                     'new:KTableCache': _h_cache_new('KTableCache'), 'OpacityCache.find_list_of_molecules': _h_find('OpacityCache', _XS_MOLS),
                     'KTableCache.find_list_of_molecules': _h_find('KTableCache', _KT_MOLS), 'call:__init__': lambda ex, st, args, kwargs, node: None},
           frame_attrs=[('self', 'mu_profile'), ('self', '_avail_active')], native=_ch_native, gen=lambda rng: dict(rng.choice(_CH_CASES)),
           short='Chemistry.__init__',
           doc='the molecules that count as absorbing: those of the k-table cache in k-table mode, of the cross-section cache otherwise, '
               'minus the deactivated ones, order kept (caches abstract; enumerated modes and deactivation lists)')
