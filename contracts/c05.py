"""C05 -- spectral binning is an overlap-weighted mean of the native spectrum."""
import z3
from pyvc.unit import Unit, ObjSpec, Lemma, Bounded
from pyvc.core import to_int


# ------------------------------------------------------------------ compute_bin_edges
def cbe_post(c, v0, v1, r):
    """edges from mid-points: e_0 = g_0 - (g_1-g_0)/2, e_i = (g_{i-1}+g_i)/2, e_n = g_{n-1} + (g_{n-1}-g_{n-2})/2;
    widths = |diff(edges)|"""
    g = v0.wngrid
    n = c.Len(g)
    e, w = r[0], r[1]
    return {'lengths': c.And(c.Len(e) == n + 1, c.Len(w) == n),
            'first': c.Eq(e[0], g[0] - (g[1] - g[0]) / 2),
            'last': c.Eq(e[n], g[n - 1] + (g[n - 1] - g[n - 2]) / 2),
            'mid': c.Forall(1, n, lambda i: c.Eq(e[i], (g[i - 1] + g[i]) / 2)),
            'widths': c.Forall(0, n, lambda i: c.Eq(w[i], c.Abs(e[i + 1] - e[i])))}


def _cbe_native(c, p):
    import numpy as np
    from taurex.util.util import compute_bin_edges
    e, w = compute_bin_edges(np.array(p['wngrid'], dtype=float))
    return (e, w), p


CBE = Unit(['C05', 'C13', 'C17'], 'taurex.util.util:compute_bin_edges', lambda c: dict(wngrid=c.array('g', (c.int('n'),))),
           pre=lambda c, v: {'n': c.Len(v.wngrid) >= 2}, post=cbe_post, native=_cbe_native,
           gen=lambda rng: (lambda n: dict(n=n, g=sorted(rng.uniform(100, 5000) for _ in range(n))))(rng.randint(2, 6)),
           result=lambda ex, st, v0: (st.alloc(ex.c, ex.c.fresh_array('edges', (ex.c.Len(v0.wngrid) + 1,))),
                                      st.alloc(ex.c, ex.c.fresh_array('widths', (ex.c.Len(v0.wngrid),)))),
           bounds=[dict(n=2), dict(n=3)], short='compute_bin_edges', doc='np.diff / np.concatenate / np.abs models assumed')


# ------------------------------------------------------------------ wnwidth_to_wlwidth
W2W = Unit(['C16', 'C17'], 'taurex.util.util:wnwidth_to_wlwidth',
           lambda c: (lambda n: dict(wngrid=c.array('g', (n,)), wnwidth=c.array('w', (n,))))(c.int('n')),
           pre=lambda c, v: {'n': c.And(c.Len(v.wngrid) >= 0, c.Len(v.wnwidth) == c.Len(v.wngrid)),
                             'pos': c.Forall(0, c.Len(v.wngrid), lambda i: c.Lt(0, v.wngrid[i]))},
           post=lambda c, v0, v1, r: {'len': c.Len(r) == c.Len(v0.wngrid),
                                      'first_order': c.Forall(0, c.Len(r), lambda i: c.Eq(r[i], 10000 * v0.wnwidth[i] / (v0.wngrid[i] * v0.wngrid[i])))},
           native=lambda c, p: (__import__('taurex.util.util', fromlist=['x']).wnwidth_to_wlwidth(
               __import__('numpy').array(p['wngrid'], dtype=float), __import__('numpy').array(p['wnwidth'], dtype=float)), p),
           gen=lambda rng: (lambda n: dict(n=n, g=[rng.uniform(100, 5000) for _ in range(n)], w=[rng.uniform(1, 50) for _ in range(n)]))(rng.randint(1, 5)),
           result=lambda ex, st, v0: st.alloc(ex.c, ex.c.fresh_array('wlw', (ex.c.Len(v0.wngrid),))),
           bounds=[dict(n=2)], short='wnwidth_to_wlwidth', doc='width conversion at the bin centre: 10000 dnu / nu^2')


# ------------------------------------------------------------------ FluxBinner.__init__
FB = 'taurex.binning.fluxbinner:FluxBinner.'


def _fbi_params(c):
    n = c.int('n')
    given = c.choice('widths_given')
    return dict(self=ObjSpec('FluxBinner', _wngrid=None, _wngrid_width=None), wngrid=c.array('g', (n,)),
                wngrid_width=c.array('w', (n,)) if given else None)


def fbi_post(c, v0, v1, r):
    """the stored grid is an ascending arrangement of the input and every stored width is the width that was given
    for that same point (widths and centres are re-sorted TOGETHER)"""
    s = v1.self
    n = c.Len(v0.wngrid)
    G, Wd = s._wngrid, s._wngrid_width
    if G is None or Wd is None:
        return {'stored': False}
    d = {'lengths': c.And(c.Len(G) == n, c.Len(Wd) == n),
         'ascending': c.ForallAdj(0, n - 1, lambda i, j: c.Le(G[i], G[j]))}
    if c.mode == 'conc':
        import numpy as np
        p = np.argsort(np.array(v0.wngrid), kind='stable')
        d['arrangement'] = bool(np.allclose(np.array(G), np.array(v0.wngrid)[p]))
        if v0.wngrid_width is not None and len(set(v0.wngrid)) == len(v0.wngrid):
            d['widths_follow'] = bool(np.allclose(np.array(Wd), np.array(v0.wngrid_width)[p]))
        return d
    if v0.wngrid_width is not None:
        # every stored (centre, width) pair is an input pair, and every input pair is stored
        pf, qf = c.last_perm        # witnesses: stored position i holds input pair p(i); input pair j is stored at q(j)
        pair = lambda i, j: c.And(G[i] == v0.wngrid[j], Wd[i] == v0.wngrid_width[j])

        def kept(i):
            at = c.And(0 <= pf(i), pf(i) < n, pair(i, pf(i)))
            return c.hint(c.Exists(0, n, lambda j: pair(i, j)), at, final_uses=1)

        def all_(j):
            at = c.And(0 <= qf(j), qf(j) < n, pair(qf(j), j))
            return c.hint(c.Exists(0, n, lambda i: pair(i, j)), at, final_uses=1)
        d['pairs_kept'] = c.ForallH(0, n, kept)
        d['pairs_all'] = c.ForallH(0, n, all_)
    else:
        d['arrangement'] = c.Forall(0, n, lambda i: c.Exists(0, n, lambda j: G[i] == v0.wngrid[j]))
    return d


def _fbi_native(c, p):
    import numpy as np
    from taurex.binning.fluxbinner import FluxBinner
    w = None if p['wngrid_width'] is None else np.array(p['wngrid_width'], dtype=float)
    o = FluxBinner(np.array(p['wngrid'], dtype=float), w)
    return None, dict(p, self=dict(p['self'], _wngrid=o._wngrid, _wngrid_width=o._wngrid_width))


def _fbi_gen(rng):
    n = rng.randint(2, 6)
    g = [rng.uniform(100, 5000) for _ in range(n)]
    return dict(n=n, g=g, w=[rng.uniform(1, 40) for _ in range(n)], widths_given=rng.random() < 0.6)


FBI = Unit(['C05', 'C17'], FB + '__init__', _fbi_params,
           pre=lambda c, v: {'n': c.Len(v.wngrid) >= 2}, post=fbi_post, native=_fbi_native, gen=_fbi_gen,
           cases=[{'widths_given': True}, {'widths_given': False}], bounds=[dict(n=2), dict(n=3)],
           abstract={'call:__init__': lambda ex, st, args, kwargs, node: None},
           frame_attrs=[('self', '_wngrid'), ('self', '_wngrid_width')], short='FluxBinner.__init__',
           doc='argsort assumed to return a sorting permutation (no stability assumed); Binner.__init__ abstract')


# ------------------------------------------------------------------ NativeBinner.bindown
NB = Unit('C05', 'taurex.binning.nativebinner:NativeBinner.bindown',
          lambda c: (lambda n: dict(self=ObjSpec('NativeBinner'), wngrid=c.array('g', (n,)), spectrum=c.array('f', (n,)),
                                    grid_width=c.array('w', (n,)), error=c.array('e', (n,))))(c.int('n')),
          post=lambda c, v0, v1, r: {'unchanged': c.And(
              c.Forall(0, c.Len(v0.wngrid), lambda i: c.And(c.Eq(r[0][i], v0.wngrid[i]), c.Eq(r[1][i], v0.spectrum[i]),
                                                            c.Eq(r[2][i], v0.error[i]), c.Eq(r[3][i], v0.grid_width[i]))),
              c.Len(r[0]) == c.Len(v0.wngrid), c.Len(r[1]) == c.Len(v0.spectrum))},
          native=lambda c, p: (__import__('taurex.binning.nativebinner', fromlist=['x']).NativeBinner().bindown(
              p['wngrid'], p['spectrum'], p['grid_width'], p['error']), p),
          gen=lambda rng: dict(n=3, g=[1.0, 2.0, 3.0], f=[rng.random() for _ in range(3)], w=[1.0] * 3, e=[0.1] * 3),
          bounds=[dict(n=2)], short='NativeBinner.bindown', doc='returns its input unchanged, in the documented order')


# ------------------------------------------------------------------ lemmas
def _window(c):
    """FluxBinner window lemma: native bins ordered and non-overlapping (hi_j <= lo_{j+1}); for a target bin [a,b]
    every native bin wholly left of a or wholly right of b has non-positive overlap min(b,hi)-max(a,lo)"""
    a, b, lo, hi = z3.Reals('a b lo hi')
    ov = z3.If(b <= hi, b, hi) - z3.If(a >= lo, a, lo)
    return [('left_of_window', [a <= b, lo <= hi, hi <= a], ov <= 0),
            ('right_of_window', [a <= b, lo <= hi, b <= lo], ov <= 0),
            ('inside_nonneg', [a <= b, lo <= hi, a <= hi, lo <= b], ov >= 0),
            ('bounded_by_bin', [a <= b, lo <= hi], z3.And(ov <= b - a, ov <= hi - lo))]


Lemma('C05', 'overlap_window', _window, doc='bins outside the searchsorted window cannot overlap the target bin')


def _linear(c):
    """the overlap-weighted mean is linear in the spectrum and preserves constants (induction over native bins)"""
    I, R = z3.IntSort(), z3.RealSort()
    w, f, g = z3.Function('w', I, R), z3.Function('f', I, R), z3.Function('g', I, R)
    al, be, k0 = z3.Reals('al be k0')
    m = z3.Int('m')
    Sw = lambda n: c.Sum(0, n, lambda j: w(j))
    S = lambda n, h: c.Sum(0, n, lambda j: w(j) * h(j))
    comb = lambda j: al * f(j) + be * g(j)
    return [('linear.base', [], S(0, comb) == al * S(0, f) + be * S(0, g)),
            ('linear.step', [m >= 0, S(m, comb) == al * S(m, f) + be * S(m, g)],
             c.hint(S(m + 1, comb) == al * S(m + 1, f) + be * S(m + 1, g), S(m + 1, comb) == S(m, comb) + w(m) * comb(m),
                    z3.And(S(m + 1, f) == S(m, f) + w(m) * f(m), S(m + 1, g) == S(m, g) + w(m) * g(m)),
                    w(m) * comb(m) == al * (w(m) * f(m)) + be * (w(m) * g(m)), final_uses=3)),
            ('constant.base', [], c.Sum(0, 0, lambda j: w(j) * k0) == k0 * Sw(0)),
            ('constant.step', [m >= 0, c.Sum(0, m, lambda j: w(j) * k0) == k0 * Sw(m)],
             c.Sum(0, m + 1, lambda j: w(j) * k0) == k0 * Sw(m + 1))]


Lemma('C05', 'weighted_mean_linear_and_constant_preserving', _linear, doc='sum_j w_j (a f_j + b g_j) = a sum w f + b sum w g; sum w k = k sum w')


# ------------------------------------------------------------------ FluxBinner.bindown: the overlap-weighted mean, bin by bin
# Native bins after sorting by centre: [MIN_j, MAX_j] = centre -+ width/2, j = 0..N-1; target bin q: [lo_q, hi_q].
# ST(q) = number of native bins wholly below the target bin (MAX_j <= lo_q), SP(q) = number of j >= 1 with MIN_j <= hi_q:
# the window [min(ST,N-1), min(SP,N-1)] is exactly what np.searchsorted selects; ST / SP are a definitional
# extension (the least-number principle gives their existence for non-decreasing MAX / MIN).
def _fb_spec(c, MIN, MAX, F, G, Wd, N, B):
    I = z3.IntSort()
    lo = lambda q: G[q] - Wd[q] / 2
    hi = lambda q: G[q] + Wd[q] / 2
    if c.mode == 'conc':
        def ST(q):
            return sum(1 for j in range(N) if MAX[j] <= lo(q))

        def SP(q):
            return sum(1 for j in range(1, N) if MIN[j] <= hi(q))
    else:
        ST, SP = c.func('ST', I, I), c.func('SP', I, I)
    srt = None
    if c.mode == 'sym':
        # the counts exist (and are unique) when the bin edges are non-decreasing: the axioms are guarded by exactly that
        srt = z3.And(c.Forall(0, N - 1, lambda j: MAX[j] <= MAX[j + 1]), c.Forall(0, N - 1, lambda j: MIN[j] <= MIN[j + 1]))
    if c.mode == 'sym' and 'fb_axioms' not in c.uf:
        c.uf['fb_axioms'] = srt
        q, j = z3.Ints('q? j?')
        inq = z3.And(srt, 0 <= q, q < to_int(B))
        c.assumed.append(z3.ForAll([q], z3.Implies(inq, z3.And(0 <= ST(q), ST(q) <= to_int(N), 0 <= SP(q), SP(q) <= to_int(N) - 1)),
                                   patterns=[ST(q)]))
        c.assumed.append(z3.ForAll([q], z3.Implies(inq, z3.And(0 <= SP(q), SP(q) <= to_int(N) - 1)), patterns=[SP(q)]))
        c.assumed.append(z3.ForAll([q, j], z3.Implies(z3.And(inq, 0 <= j, j < to_int(N)), (j < ST(q)) == (MAX[j] <= lo(q))),
                                   patterns=[z3.MultiPattern(ST(q), MAX[j])]))
        c.assumed.append(z3.ForAll([q, j], z3.Implies(z3.And(inq, 1 <= j, j < to_int(N)), (j - 1 < SP(q)) == (MIN[j] <= hi(q))),
                                   patterns=[z3.MultiPattern(SP(q), MIN[j])]))

    def start(q):
        return c.Min(ST(q), N - 1)

    def stop(q):
        return c.Min(SP(q), N - 1)

    def wt(q, j):
        return (c.Min(hi(q), MAX[j]) - c.Max(MIN[j], lo(q))) / (hi(q) - lo(q))

    def overl(q):
        return c.And(lo(q) <= MAX[start(q)], MIN[stop(q)] <= hi(q))

    def nwin(q):
        return c.Max(stop(q) + 1 - start(q), 0)

    def SW(q):
        s = start(q)
        return c.Sum(0, nwin(q), lambda i: wt(q, s + i))

    def val(q, m=None):
        s = start(q)
        sw = SW(q)
        return c.Sum(0, nwin(q), lambda i: wt(q, s + i) / sw * (F[s + i] if m is None else F[m, s + i]))
    if c.mode == 'sym':
        srt = c.uf['fb_axioms']
    def noise(q, E, m=None):
        s = start(q)
        sw = SW(q)
        e = (lambda j: E[j]) if m is None else (lambda j: E[m, j])
        return c.sqrt(c.Sum(0, nwin(q), lambda i: wt(q, s + i) * wt(q, s + i) * (e(s + i) * e(s + i))) / sw / sw)
    return dict(noise=noise, sorted=srt, ST=ST, SP=SP, lo=lo, hi=hi, start=start, stop=stop, wt=wt, overl=overl, nwin=nwin, SW=SW, val=val)


def _fbd_params(c):
    N, B = c.int('N'), c.int('B')
    err, wid, dim = c.choice('errors'), c.choice('widths'), c.choice('dim')
    shp = (N,) if dim == 1 else (c.int('M'), N)
    return dict(self=ObjSpec('FluxBinner', _wngrid=c.array('g', (B,)), _wngrid_width=c.array('w', (B,))), wngrid=c.array('wn', (N,)),
                spectrum=c.array('f', shp), grid_width=c.array('wd', (N,)) if wid == 'given' else None, error=c.array('e', shp) if err else None)


def _rows(c, a):
    """None for a 1-D spectrum, the number of rows for a 2-D one (the spectral axis is the last one)"""
    sh = c.Shape(a)
    return None if len(sh) == 1 else sh[0]


def _shape_ok(c, a, M, N):
    sh = c.Shape(a)
    return (sh[0] == N) if M is None else c.And(sh[0] == M, sh[1] == N)


def _all_rows(c, M, f):
    """f(m) for the single row of a 1-D spectrum (m = None) or for every row of a 2-D one"""
    return f(None) if M is None else c.Forall(0, M, f)


def _at(A, m, j):
    return A[j] if m is None else A[m, j]


def _derived_width(c, wn, N, j):
    """full width compute_bin_edges gives bin j of an ascending grid: |e_{j+1} - e_j| with edges at the mid-points"""
    def edge(i):
        first = wn[0] - (wn[1] - wn[0]) / 2
        last = wn[N - 1] + (wn[N - 1] - wn[N - 2]) / 2
        if c.mode == 'conc':
            return first if i == 0 else (last if i == N else (wn[i - 1] + wn[i]) / 2)
        mid = (wn[i - 1] + wn[i]) / 2
        return z3.If(to_int(i) == 0, first, z3.If(to_int(i) == to_int(N), last, mid))
    return c.Abs(edge(j + 1) - edge(j))


def _fbd_pre(c, v):
    N, B = c.Len(v.wngrid), c.Len(v.self._wngrid)
    wn, wd = v.wngrid, v.grid_width
    if wd is None:
        # widths derived from the grid itself (the usual call on a model's native grid): ascending input, and the derived
        # bin edges ordered like the centres (constant-R, linear, logarithmic grids; not wildly irregular ones)
        W = lambda j: _derived_width(c, wn, N, j)
        M = _rows(c, v.spectrum)
        return {'sizes': c.And(N >= 2, B >= 0, _shape_ok(c, v.spectrum, M, N), c.Len(v.self._wngrid_width) == B, (M >= 1) if M is not None else True,
                               _shape_ok(c, v.error, M, N) if v.error is not None else True),
                'native_grid_ascending': c.Forall2((0, N), (0, N), lambda i, j: c.Implies(i < j, wn[i] < wn[j])),
                'derived_bin_edges_ordered_like_the_centres': c.Forall(0, N - 1, lambda j: c.And(
                    wn[j] - W(j) / 2 <= wn[j + 1] - W(j + 1) / 2, wn[j] + W(j) / 2 <= wn[j + 1] + W(j + 1) / 2)),
                'target_widths_positive': c.Forall(0, B, lambda q: v.self._wngrid_width[q] > 0)}
    M = _rows(c, v.spectrum)
    return {'sizes': c.And(N >= 1, B >= 0, _shape_ok(c, v.spectrum, M, N), c.Len(wd) == N, c.Len(v.self._wngrid_width) == B,
                           (M >= 1) if M is not None else True, _shape_ok(c, v.error, M, N) if v.error is not None else True),
            'native_widths_non_negative': c.Forall(0, N, lambda i: wd[i] >= 0),
            # distinct centres whose lower and upper edges are ordered like the centres (true for non-overlapping bins, and for
            # the slightly overlapping bins np.diff-derived widths give on non-uniform grids)
            'native_bin_edges_ordered_like_the_centres': c.Forall2((0, N), (0, N), lambda i, j: c.Implies(
                c.And(i != j, wn[i] <= wn[j]), c.And(wn[i] < wn[j], wn[i] - wd[i] / 2 <= wn[j] - wd[j] / 2,
                                                     wn[i] + wd[i] / 2 <= wn[j] + wd[j] / 2))),
            'target_widths_positive': c.Forall(0, B, lambda q: v.self._wngrid_width[q] > 0)}


def _fbd_sorted(c, v0):
    pf, qf = c.last_perm
    wn, wd, f = v0.wngrid, v0.grid_width, v0.spectrum
    if wd is None:
        N = c.Len(wn)

        class _W:
            def __getitem__(s_, j):
                return _derived_width(c, wn, N, j)
        wd = _W()
        pf = lambda j: j                 # ascending input: the sorting permutation is the identity (argsort model fact)

    class _A:
        def __init__(s_, fn):
            s_.fn = fn

        def __getitem__(s_, j):
            return s_.fn(j)
    def fget(j):
        if isinstance(j, tuple):
            return f[j[0], pf(j[1])]
        return f[pf(j)]
    return (_A(lambda j: wn[pf(j)] - wd[pf(j)] / 2), _A(lambda j: wn[pf(j)] + wd[pf(j)] / 2), _A(fget))


def _fbd_inv(c, v, v0, k):
    N, B = c.Len(v0.wngrid), c.Len(v0.self._wngrid)
    G, Wd = v0.self._wngrid, v0.self._wngrid_width
    MIN, MAX, F = v.old_spect_min, v.old_spect_max, v.old_spect_flux
    S = _fb_spec(c, MIN, MAX, F, G, Wd, N, B)
    BS = v.bin_spectrum
    sort = v.sorted_input
    M = _rows(c, v0.spectrum)
    d = {'locals': c.And(_shape_ok(c, BS, M, B), c.Len(MIN) == N, c.Len(MAX) == N, _shape_ok(c, F, M, N), c.Len(v.new_spec_wn) == B,
                         c.Len(v.new_spec_wn_min) == B, c.Len(v.new_spec_wn_max) == B,
                         (v.error is None and v.bin_error is None) if v0.error is None else
                         c.And(_shape_ok(c, v.bin_error, M, B), _shape_ok(c, v.old_spect_err, M, N))),
         'target_bins': c.Forall(0, B, lambda q: c.And(v.new_spec_wn_min[q] == S['lo'](q), v.new_spec_wn_max[q] == S['hi'](q))),
         'native_bins': c.Forall(0, N, lambda j: c.And(MIN[j] == v0.wngrid[sort[j]] - v0.grid_width[sort[j]] / 2,
                                                       MAX[j] == v0.wngrid[sort[j]] + v0.grid_width[sort[j]] / 2,
                                                       _all_rows(c, M, lambda m: _at(F, m, j) == _at(v0.spectrum, m, sort[j]))))
         if v0.grid_width is not None else
         c.Forall(0, N, lambda j: c.And(sort[j] == j, MIN[j] == v0.wngrid[j] - _derived_width(c, v0.wngrid, N, j) / 2,
                                        MAX[j] == v0.wngrid[j] + _derived_width(c, v0.wngrid, N, j) / 2,
                                        _all_rows(c, M, lambda m: _at(F, m, j) == _at(v0.spectrum, m, j)))),
         'native_bins_sorted': c.And(c.Forall(0, N - 1, lambda j: c.And(MAX[j] <= MAX[j + 1], MIN[j] <= MIN[j + 1])),
                                     c.Forall(0, N, lambda j: MIN[j] <= MAX[j])),
         'todo': c.Forall(k, B, lambda q: _all_rows(c, M, lambda m: _at(BS, m, q) == 0))}
    if v0.grid_width is None and c.mode == 'sym' and not getattr(c, 'assuming', False):
        # follows from the precondition on the derived edges and the clause just above: nothing else is needed
        d['native_bins_sorted'] = c.scope(d['native_bins_sorted'], 'pre.*', 'acc.native_bins', 'acc.locals', 'inv0.native_bins', 'inv0.locals',
                                          'inv0.native_bins_sorted')
    if v0.error is not None:
        E, BE = v.old_spect_err, v.bin_error
        d['native_errors'] = c.Forall(0, N, lambda j: _all_rows(c, M, lambda m: _at(E, m, j) == _at(v0.error, m, sort[j])))
        d['todo_errors'] = c.Forall(k, B, lambda q: _all_rows(c, M, lambda m: _at(BE, m, q) == 0))
        row = lambda q: _all_rows(c, M, lambda m: c.And(_at(BS, m, q) == c.If(S['overl'](q), S['val'](q, m), 0),
                                                        _at(BE, m, q) == c.If(S['overl'](q), S['noise'](q, E, m), 0)))
    else:
        row = lambda q: _all_rows(c, M, lambda m: _at(BS, m, q) == c.If(S['overl'](q), S['val'](q, m), 0))
    done = c.Forall(0, k, row)
    if c.mode == 'sym' and not getattr(c, 'assuming', False) and k is not None and len(v.ghost('searchsorted')) >= 2:
        last = z3.simplify(k - 1)
        s1, s2 = v.ghost('searchsorted')[-2:]                 # what the two searchsorted calls of this iteration returned
        ST, SP = S['ST'](last), S['SP'](last)
        lo, hi = S['lo'](last), S['hi'](last)
        Nn = to_int(N)
        done = c.hint(done,
                      # the searchsorted results are the spec counts (uniqueness of the least index for sorted arrays)
                      c.And(0 <= last, last < to_int(B), 0 <= s1, s1 <= Nn, 0 <= s2, s2 <= Nn - 1), S['sorted'],
                      z3.Implies(z3.And(0 <= s1, s1 < Nn), MAX[s1] > lo),
                      c.pure(z3.Implies(s1 < ST, MAX[s1] <= lo), S['sorted'], 0 <= last, last < to_int(B), 0 <= s1, s1 <= Nn),
                      c.pure(z3.And(0 <= ST, ST <= Nn, z3.Implies(ST < Nn, MAX[ST] > lo)), S['sorted'], 0 <= last, last < to_int(B)),
                      z3.Implies(ST < s1, MAX[ST] <= lo), s1 == ST,
                      z3.Implies(z3.And(0 <= s2, s2 < Nn - 1), MIN[s2 + 1] > hi),
                      c.pure(z3.Implies(s2 < SP, MIN[s2 + 1] <= hi), S['sorted'], 0 <= last, last < to_int(B), 0 <= s2, s2 <= Nn - 1),
                      c.pure(z3.And(0 <= SP, SP <= Nn - 1, z3.Implies(SP < Nn - 1, MIN[SP + 1] > hi)), S['sorted'], 0 <= last, last < to_int(B)),
                      z3.Implies(SP < s2, MIN[SP + 1] <= hi), s2 == SP,
                      c.And(c.Min(s1, N - 1) == S['start'](last), c.Min(s2, N - 1) == S['stop'](last)),
                      c.Forall(0, last, row), row(last), c.pure_ground(done, c.Forall(0, last, row), row(last), last >= 0), final_uses=1)
    d['done'] = done
    return d


def _fbd_post(c, v0, v1, r):
    N, B = c.Len(v0.wngrid), c.Len(v0.self._wngrid)
    G, Wd = v0.self._wngrid, v0.self._wngrid_width
    M = _rows(c, v0.spectrum)
    if c.mode == 'conc':
        import numpy as np
        p = np.argsort(np.array(v0.wngrid, dtype=float))
        if v0.grid_width is None:
            wn0 = list(v0.wngrid)
            wdl = [_derived_width(c, wn0, N, j) for j in range(N)]
        else:
            wdl = v0.grid_width
        wn, wd = (np.array(x, dtype=float)[p] for x in (v0.wngrid, wdl))
        MIN, MAX = list(wn - wd / 2), list(wn + wd / 2)
        F = np.array(v0.spectrum, dtype=float)[..., p]
        E = None if v0.error is None else np.array(v0.error, dtype=float)[..., p]
    elif v0.grid_width is None and c.mode == 'sym':
        # derived widths: the statement is made in two steps -- the formula over the function's own sorted bin arrays (ghost
        # access to the locals), and those arrays being the documented bins (clause native_bins_are_the_documented_ones);
        # equal bodies give equal sums (lemma sum_congruence)
        from pyvc.core import View
        loc = View(c, c.raw['state'].env, c.raw['state'].heap)
        MIN, MAX, F = loc.old_spect_min, loc.old_spect_max, loc.old_spect_flux
        E = loc.old_spect_err if v0.error is not None else None
    else:
        MIN, MAX, F = _fbd_sorted(c, v0)
        E = None
        if v0.error is not None:
            pf = c.last_perm[0]
            E = type(F)(lambda j: v0.error[j[0], pf(j[1])] if isinstance(j, tuple) else v0.error[pf(j)])
    S = _fb_spec(c, MIN, MAX, F, G, Wd, N, B)
    out = r[1]
    d = {'returns_grid_spectrum_errors_widths': c.And(c.Len(r[0]) == B, _shape_ok(c, out, M, B),
                                                      (r[2] is None) if v0.error is None else _shape_ok(c, r[2], M, B), c.Len(r[3]) == B)}
    if c.mode == 'bmc':
        return d
    # The claim is about target bins that overlap the native grid in positive length (total overlap SW > 0); what is
    # stored for the others (0, or NaN where the code divides 0 by 0) is not part of the property.
    def meets(q):
        return c.And(S['overl'](q), S['nwin'](q) > 0, S['SW'](q) > 0) if c.mode != 'conc' else \
            (S['overl'](q) and S['nwin'](q) > 0 and S['SW'](q) > 1e-12)
    if c.mode == 'conc':
        rows = [None] if M is None else list(range(M))
        ok = oke = True
        for q in range(B):
            if meets(q):
                for m in rows:
                    want = S['val'](q, m)
                    ok = ok and abs(_at(out, m, q) - want) <= 1e-9 * max(1.0, abs(want))
                    if E is not None:
                        want = S['noise'](q, E, m)
                        oke = oke and abs(_at(r[2], m, q) - want) <= 1e-9 * max(1.0, abs(want))
        d['overlap_weighted_mean_of_the_window'] = ok
        if E is not None:
            d['errors_with_the_same_weights_in_quadrature'] = oke
        return d
    if v0.grid_width is None:
        wn = v0.wngrid
        d['native_bins_are_the_documented_ones'] = c.Forall(0, N, lambda j: c.And(
            MIN[j] == wn[j] - _derived_width(c, wn, N, j) / 2, MAX[j] == wn[j] + _derived_width(c, wn, N, j) / 2,
            _all_rows(c, M, lambda m: c.And(_at(F, m, j) == _at(v0.spectrum, m, j), (_at(E, m, j) == _at(v0.error, m, j)) if E is not None else True))))
    d['overlap_weighted_mean_of_the_window'] = c.Forall(0, B, lambda q: c.Implies(meets(q), _all_rows(c, M, lambda m: _at(out, m, q) == S['val'](q, m))))
    if E is not None:
        d['errors_with_the_same_weights_in_quadrature'] = c.Forall(0, B, lambda q: c.Implies(meets(q), _all_rows(
            c, M, lambda m: _at(r[2], m, q) == S['noise'](q, E, m))))
    return d


def _fbd_obj(c, p):
    import numpy as np
    from taurex.binning.fluxbinner import FluxBinner
    return FluxBinner(np.array([1.0, 2.0]), np.array([1.0, 1.0]))      # real constructor; the target grid is set per call


def _fbd_native(c, o, p):
    """one binner object serves many spectra (histories); the target grid the contract describes is set from the inputs"""
    import numpy as np
    o._wngrid = np.array(p['self']['_wngrid'], dtype=float)
    o._wngrid_width = np.array(p['self']['_wngrid_width'], dtype=float)
    err = None if p['error'] is None else np.array(p['error'], dtype=float)
    gw = None if p['grid_width'] is None else np.array(p['grid_width'], dtype=float)
    r = o.bindown(np.array(p['wngrid'], dtype=float), np.array(p['spectrum'], dtype=float), grid_width=gw, error=err)
    return r, p


def _fbd_gen(rng):
    N, B = rng.randint(1, 7), rng.randint(0, 5)
    edges = sorted(rng.uniform(100, 1000) for _ in range(2 * N))
    bins = [(edges[2 * i], edges[2 * i + 1]) for i in range(N)]
    if rng.random() < 0.5:                       # contiguous bins
        bins = [(edges[i], edges[i + 1]) for i in range(N)] if N + 1 <= len(edges) else bins
    order = list(range(N))
    if rng.random() < 0.5:
        rng.shuffle(order)
    wn = [(bins[i][0] + bins[i][1]) / 2 for i in order]
    wd = [bins[i][1] - bins[i][0] for i in order]
    g = sorted(rng.uniform(50, 1100) for _ in range(B))
    d = dict(N=N, B=B, wn=wn, wd=wd, f=[rng.uniform(0, 1) for _ in range(N)], g=g, w=[rng.uniform(1, 300) for _ in range(B)],
             errors=rng.random() < 0.5, e=[rng.uniform(0.01, 0.2) for _ in range(N)], widths='given')
    d['dim'] = 1
    if rng.random() < 0.5:
        N = max(N, 2)
        kind = rng.choice(['linear', 'constR', 'log'])
        if kind == 'linear':
            wn = [200.0 + 37.5 * i for i in range(N)]
        else:
            wn = [200.0 * (1.0 + (0.01 if kind == 'constR' else 0.3)) ** i for i in range(N)]
        d.update(N=N, wn=wn, widths='derived', f=[rng.uniform(0, 1) for _ in range(N)], e=[rng.uniform(0.01, 0.2) for _ in range(N)])
    if rng.random() < 0.4:
        M = rng.randint(1, 3)
        N = d['N']
        d.update(dim=2, M=M, f=[[rng.uniform(0, 1) for _ in range(N)] for _ in range(M)], e=[[rng.uniform(0.01, 0.2) for _ in range(N)] for _ in range(M)])
    return d


FBD = Unit(['C05', 'C17'], FB + 'bindown', _fbd_params, pre=_fbd_pre, post=_fbd_post, invariants={0: _fbd_inv}, native_obj=_fbd_obj, native_call=_fbd_native, gen=_fbd_gen, history_fixed=('B', 'g', 'w'),
           cases=[{'errors': e, 'widths': w, 'dim': dm} for e in (False, True) for w in ('given', 'derived') for dm in (1, 2)],
           bounds=[dict(N=2, B=1, M=1)], safety=('index', 'sorted'), timeout_ms=30000, short='FluxBinner.bindown',
           doc='1-D spectra and 2-D stacks of spectra (spectral axis last), native widths given (any order of the native points) or derived from an ascending grid by compute_bin_edges (by contract), with and without errors: for every target bin the mean of the native values in the searchsorted window '
               'weighted by the overlap lengths (zero when the bin does not meet the native grid), any order of the native points')


# ------------------------------------------------------------------ bounded stand-ins (never counted as proved)
def _oracle(nat_c, nat_w, f, tgt_c, tgt_w, err=None):
    """brute-force overlap-weighted mean over ALL native bins (no window, no sorting)"""
    import numpy as np
    out = np.full(f.shape[:-1] + (len(tgt_c),), np.nan)
    eout = np.full(out.shape, np.nan)
    lo, hi = nat_c - nat_w / 2, nat_c + nat_w / 2
    for i, (cc, ww) in enumerate(zip(tgt_c, tgt_w)):
        a, b = cc - ww / 2, cc + ww / 2
        ov = np.maximum(0.0, np.minimum(b, hi) - np.maximum(a, lo))
        if ov.sum() > 0:
            out[..., i] = (f * ov).sum(axis=-1) / ov.sum()
            if err is not None:
                eout[..., i] = np.sqrt(((err * ov) ** 2).sum(axis=-1)) / ov.sum()
    return out, eout


def _b_flux(seed, tier):
    """FluxBinner.bindown against the brute-force oracle: sorted and shuffled native order, shuffled target order,
    explicit widths, gaps, bins wider/narrower than native bins, bins outside the native range, 1-D and 2-D"""
    import random
    import numpy as np
    from taurex.binning.fluxbinner import FluxBinner
    rng = random.Random(seed)
    N = 40 if tier == 'quick' else 2000
    fails, samples, cases = [], [], 0
    for it in range(N):
        n = rng.randint(3, 40)
        kind = rng.choice(['linear', 'log', 'gaps'])
        if kind == 'linear':
            nat = np.linspace(500, 500 + 10 * n, n)
        elif kind == 'log':
            nat = np.logspace(2.5, 3.5, n)
        else:
            nat = np.cumsum([rng.uniform(5, 30) for _ in range(n)]) + 300
        explicit = rng.random() < 0.5
        if explicit:
            gap = np.diff(nat)
            half = np.concatenate([[gap[0]], np.minimum(gap[:-1], gap[1:]), [gap[-1]]])
            natw = half * np.array([rng.uniform(0.3, 1.0) for _ in range(n)])      # non-overlapping, possibly with gaps
        else:
            natw = None
        m = rng.randint(1, 8)
        tc = np.array(sorted(rng.uniform(nat[0] - 50, nat[-1] + 50) for _ in range(m)))
        tw = np.array([rng.uniform(2, 120) for _ in range(m)])
        two_d = rng.random() < 0.3
        f = np.array([[rng.uniform(0, 1) for _ in range(n)] for _ in range(2)]) if two_d else np.array([rng.uniform(0, 1) for _ in range(n)])
        use_err = rng.random() < 0.5
        e = np.array(f) * 0.1 + 0.01 if use_err else None
        shuffle_native, shuffle_target = rng.random() < 0.5, rng.random() < 0.5
        p = np.array(rng.sample(range(n), n)) if shuffle_native else np.arange(n)
        q = np.array(rng.sample(range(m), m)) if shuffle_target else np.arange(m)
        inp = dict(kind=kind, n=n, m=m, explicit_widths=explicit, two_d=two_d, error=use_err, shuffled_native=shuffle_native,
                   shuffled_target=shuffle_target, seed=seed, case=it)
        cases += 1
        from taurex.util.util import compute_bin_edges
        w_used = natw if natw is not None else compute_bin_edges(nat)[-1]
        want, ewant = _oracle(nat, w_used, f, tc, tw, e)
        try:
            b = FluxBinner(tc[q], tw[q])
            gw = None if natw is None else natw[p]
            res = b.bindown(nat[p], f[..., p], grid_width=gw, error=None if e is None else e[..., p])
        except Exception as ex_:
            fails.append(dict(clause='fluxbinner.raises', inputs=inp, got=repr(ex_)[:200]))
            continue
        # history: the same binner applied to a second native grid of the same length (no explicit widths)
        if natw is None and not two_d:
            nat2 = np.linspace(nat[0] + rng.uniform(-20, 20), nat[-1] * rng.uniform(0.6, 1.4), n)   # evenly spaced: bins ordered, non-overlapping
            f2 = np.array([rng.uniform(0, 1) for _ in range(n)])
            want2, _ = _oracle(nat2, compute_bin_edges(nat2)[-1], f2, tc, tw)
            try:
                got2 = np.asarray(b.bindown(nat2, f2)[1], dtype=float)
                m2 = ~np.isnan(want2)
                cases += 1
                if not np.allclose(got2[m2], want2[m2], rtol=1e-9, atol=1e-12):
                    fails.append(dict(clause='fluxbinner.second_call_same_binner', inputs=inp,
                                      got=float(np.nanmax(np.abs(got2[m2] - want2[m2])))))
            except Exception as ex_:
                fails.append(dict(clause='fluxbinner.raises', inputs=inp, got=repr(ex_)[:200]))
        grid, got, egot, wid = res
        ok = np.allclose(grid, tc) and np.allclose(wid, tw)
        mask = ~np.isnan(want)
        if not ok:
            fails.append(dict(clause='fluxbinner.grid_and_widths', inputs=inp))
        elif not np.allclose(np.asarray(got)[mask], want[mask], rtol=1e-9, atol=1e-12):
            fails.append(dict(clause='fluxbinner.overlap_weighted_mean', inputs=inp,
                              got=float(np.nanmax(np.abs(np.asarray(got)[mask] - want[mask])))))
        elif e is not None and (egot is None or not np.allclose(np.asarray(egot)[mask], ewant[mask], rtol=1e-9, atol=1e-12)):
            fails.append(dict(clause='fluxbinner.error_in_quadrature', inputs=inp))
        if it < 2:
            samples.append(inp)
    return {'cases': cases, 'failures': fails, 'samples': samples,
            'bound': '%d random (native grid, target grid) pairs: 3..40 native bins, 1..8 target bins' % N}


Bounded('C05', 'fluxbinner_vs_overlap_oracle', _b_flux,
        doc='FluxBinner.bindown (searchsorted windows over slices, `...` indexing) is outside the verified subset')


def _b_simple(seed, tier):
    """fast histogram binner = plain mean of the native points between bin mid-points"""
    import random
    import numpy as np
    from taurex.binning.simplebinner import SimpleBinner
    rng = random.Random(seed)
    N = 40 if tier == 'quick' else 2000
    fails, samples = [], []
    for it in range(N):
        n, m = rng.randint(5, 60), rng.randint(2, 8)
        nat = np.sort(np.array([rng.uniform(100, 1000) for _ in range(n)]))
        tc = np.sort(np.array([rng.uniform(300, 800) for _ in range(m)]))          # native points beyond both outer edges
        f = np.array([rng.uniform(0, 1) for _ in range(n)])
        edges = np.concatenate([[tc[0] - (tc[1] - tc[0]) / 2], (tc[1:] + tc[:-1]) / 2, [tc[-1] + (tc[-1] - tc[-2]) / 2]])
        want = np.full(m, np.nan)
        for i in range(m):
            sel = (nat >= edges[i]) & (nat < edges[i + 1]) if i < m - 1 else (nat >= edges[i]) & (nat <= edges[i + 1])
            if sel.any():
                want[i] = f[sel].mean()
        inp = dict(n=n, m=m, seed=seed, case=it)
        try:
            got = np.asarray(SimpleBinner(tc).bindown(nat, f)[1], dtype=float)
            got2 = np.asarray(SimpleBinner(tc).bindown(nat, np.vstack([f, 2 * f]))[1], dtype=float)
        except Exception as ex_:
            fails.append(dict(clause='simplebinner.raises', inputs=inp, got=repr(ex_)[:200]))
            continue
        mask = ~np.isnan(want)
        if not np.allclose(got[mask], want[mask], rtol=1e-9):
            fails.append(dict(clause='simplebinner.plain_mean', inputs=inp))
        else:
            # 2-D input: each row binned like the 1-D case, except for native points exactly on an interior edge
            # (the two code paths close the bins on different sides)
            on_edge = np.isin(nat, edges).any()
            if not on_edge and (got2.shape != (2, m) or not np.allclose(got2[0][mask], want[mask], rtol=1e-9)
                                or not np.allclose(got2[1][mask], 2 * want[mask], rtol=1e-9)):
                fails.append(dict(clause='simplebinner.rows_of_2d_input', inputs=inp))
        if it < 2:
            samples.append(inp)
    return {'cases': N, 'failures': fails, 'samples': samples, 'bound': '%d random grids (1-D)' % N}


Bounded('C05', 'simplebinner_plain_mean', _b_simple, doc='np.histogram / np.digitize based: outside the verified subset')


# ------------------------------------------------------------------ util.bindown (the histogram binner, 1-D data): plain mean between mid-points
def _ub_edges(c, nb, B, k):
    """bin edges of the fast binner: mid-points between neighbouring target points, the end bins symmetric"""
    first = nb[0] - (nb[1] - nb[0]) / 2
    last = nb[B - 1] + (nb[B - 1] - nb[B - 2]) / 2
    if c.mode == 'conc':
        return first if k == 0 else (last if k == B else (nb[k] + nb[k - 1]) / 2)
    return z3.If(to_int(k) == 0, first, z3.If(to_int(k) == to_int(B), last, (nb[k] + nb[k - 1]) / 2))


def _ub_post(c, v0, v1, r):
    x, dta, nb = v0.original_bin, v0.original_data, v0.new_bin
    N, B = c.Len(x), c.Len(nb)
    d = {'one_value_per_target_point': c.Len(r) == B}
    if c.mode == 'conc':
        ok = True
        for k in range(B):
            lo, hi = _ub_edges(c, nb, B, k), _ub_edges(c, nb, B, k + 1)
            inside = [j for j in range(N) if lo <= x[j] and (x[j] < hi or (k == B - 1 and x[j] == hi))]
            if inside:
                want = sum(dta[j] for j in inside) / len(inside)
                ok = ok and abs(r[k] - want) <= 1e-9 * max(1.0, abs(want))
        d['plain_mean_of_the_points_between_the_mid_points'] = ok
        return d
    if c.mode == 'bmc':
        return d

    def inbin(k, j):
        lo, hi = _ub_edges(c, nb, B, k), _ub_edges(c, nb, B, k + 1)
        return z3.And(lo <= x[j], z3.Or(x[j] < hi, z3.And(to_int(k) == to_int(B) - 1, x[j] == hi)))
    cnt = lambda k: c.Sum(0, N, lambda j: z3.If(inbin(k, j), z3.RealVal(1), z3.RealVal(0)))
    tot = lambda k: c.Sum(0, N, lambda j: z3.If(inbin(k, j), dta[j], z3.RealVal(0)))
    d['plain_mean_of_the_points_between_the_mid_points'] = c.Forall(0, B, lambda k: r[k] == tot(k) / cnt(k))
    return d


def _ub_native(c, p):
    import numpy as np
    from taurex.util.util import bindown
    return np.asarray(bindown(np.array(p['original_bin'], dtype=float), np.array(p['original_data'], dtype=float), np.array(p['new_bin'], dtype=float)),
                      dtype=float), p


UBD = Unit('C05', 'taurex.util.util:bindown', lambda c: dict(original_bin=c.array('x', (c.int('N'),)), original_data=c.array('d', (c.int('N'),)),
                                                             new_bin=c.array('nb', (c.int('B'),)), last_point=None),
           pre=lambda c, v: {'sizes': c.And(c.Len(v.original_bin) >= 0, c.Len(v.new_bin) >= 2),
                             'target_points_ascending': c.Forall2((0, c.Len(v.new_bin)), (0, c.Len(v.new_bin)),
                                                                  lambda i, j: c.Implies(i < j, v.new_bin[i] < v.new_bin[j]))},
           post=_ub_post, native=_ub_native, safety=('index', 'sorted'),
           result=lambda ex, st, v0: st.alloc(ex.c, ex.c.fresh_array('binned', (ex.c.Len(v0.new_bin),))),
           gen=lambda rng: (lambda N, B: dict(N=N, B=B, x=sorted(rng.uniform(100, 900) for _ in range(N)), d=[rng.uniform(0, 1) for _ in range(N)],
                                              nb=sorted(rng.uniform(50, 950) for _ in range(B))))(rng.randint(0, 12), rng.randint(2, 5)),
           bounds=[dict(N=2, B=2)], short='util.bindown',
           doc='the fast binner on 1-D data: every target point with at least one native point between its two mid-point edges gets their '
               'plain mean (np.histogram: assumed model; the 2-D branch with np.digitize stays bounded)')


# ------------------------------------------------------------------ SimpleBinner.bindown: the fast binner on the binner's own grid
class _NS0:
    def __init__(s_, **kw):
        s_.__dict__.update(kw)


def _sb_post(c, v0, v1, r):
    if not (isinstance(r, tuple) and len(r) == 4):
        return {'four_results': False}
    B = c.Len(v0.self._wngrid)
    d = {'grid_and_widths_of_the_binner': c.And(c.Len(r[0]) == B, c.Forall(0, B, lambda k: c.And(r[0][k] == v0.self._wngrid[k], r[3][k] == v0.self._wn_width[k]))),
         'no_errors': r[2] is None}
    inner = _ub_post(c, _NS0(original_bin=v0.wngrid, original_data=v0.spectrum, new_bin=v0.self._wngrid), None, r[1])
    d.update({'spectrum.' + k: g for k, g in inner.items()})
    return d


def _sb_native(c, p):
    import numpy as np
    from taurex.binning.simplebinner import SimpleBinner
    o = SimpleBinner.__new__(SimpleBinner)
    o._wngrid, o._wn_width = np.array(p['self']['_wngrid'], dtype=float), np.array(p['self']['_wn_width'], dtype=float)
    r = o.bindown(np.array(p['wngrid'], dtype=float), np.array(p['spectrum'], dtype=float))
    return (np.asarray(r[0]), np.asarray(r[1]), r[2], np.asarray(r[3])), p


SBD = Unit('C05', 'taurex.binning.simplebinner:SimpleBinner.bindown',
           lambda c: dict(self=ObjSpec('SimpleBinner', _wngrid=c.array('g', (c.int('B'),)), _wn_width=c.array('w', (c.int('B'),))),
                          wngrid=c.array('x', (c.int('N'),)), spectrum=c.array('d', (c.int('N'),)), grid_width=None, error=None),
           pre=lambda c, v: {'sizes': c.And(c.Len(v.wngrid) >= 0, c.Len(v.self._wngrid) >= 2),
                             'target_points_ascending': c.Forall2((0, c.Len(v.self._wngrid)), (0, c.Len(v.self._wngrid)),
                                                                  lambda i, j: c.Implies(i < j, v.self._wngrid[i] < v.self._wngrid[j]))},
           post=_sb_post, native=_sb_native, safety=('index',),
           gen=lambda rng: (lambda N, B: dict(N=N, B=B, x=sorted(rng.uniform(100, 900) for _ in range(N)), d=[rng.uniform(0, 1) for _ in range(N)],
                                              g=sorted(rng.uniform(50, 950) for _ in range(B)), w=[rng.uniform(1, 9) for _ in range(B)]))(
               rng.randint(0, 12), rng.randint(2, 5)),
           bounds=[dict(N=2, B=2)], short='SimpleBinner.bindown',
           doc='the histogram binner: its own grid and widths returned unchanged, the spectrum binned by util.bindown (by contract) onto that grid')
