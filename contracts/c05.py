"""C05 -- spectral binning is an overlap-weighted mean of the native spectrum."""
import z3
from pyvc.unit import Unit, ObjSpec, Lemma, Bounded


# ------------------------------------------------------------------ compute_bin_edges
def cbe_post(c, v0, v1, r):
    """edges from mid-points: e_0 = g_0 - (g_1-g_0)/2, e_i = (g_{i-1}+g_i)/2, e_n = g_{n-1} + (g_{n-1}-g_{n-2})/2;
    widths = |diff(edges)|"""
    g = v0.wngrid
    n = c.Len(g)
    e, w = r[0], r[1]
    return {'lengths': c.And(c.Len(e) == n + 1, c.Len(w) == n),
            'first': c.Eq(e[0], g[0] - (g[1] - g[0]) / 2),
            'last': c.Eq(e[n], g[n - 1] + (g[n - 1] - g[n - 2]) / 2),
            'mid': c.Forall(1, n, lambda i: c.Eq(e[i], (g[i - 1] + g[i]) / 2)),
            'widths': c.Forall(0, n, lambda i: c.Eq(w[i], c.Abs(e[i + 1] - e[i])))}


def _cbe_native(c, p):
    import numpy as np
    from taurex.util.util import compute_bin_edges
    e, w = compute_bin_edges(np.array(p['wngrid'], dtype=float))
    return (e, w), p


CBE = Unit(['C05', 'C13', 'C17'], 'taurex.util.util:compute_bin_edges', lambda c: dict(wngrid=c.array('g', (c.int('n'),))),
           pre=lambda c, v: {'n': c.Len(v.wngrid) >= 2}, post=cbe_post, native=_cbe_native,
           gen=lambda rng: (lambda n: dict(n=n, g=sorted(rng.uniform(100, 5000) for _ in range(n))))(rng.randint(2, 6)),
           result=lambda ex, st, v0: (st.alloc(ex.c, ex.c.fresh_array('edges', (ex.c.Len(v0.wngrid) + 1,))),
                                      st.alloc(ex.c, ex.c.fresh_array('widths', (ex.c.Len(v0.wngrid),)))),
           bounds=[dict(n=2), dict(n=3)], short='compute_bin_edges', doc='np.diff / np.concatenate / np.abs models assumed')


# ------------------------------------------------------------------ wnwidth_to_wlwidth
W2W = Unit(['C16', 'C17'], 'taurex.util.util:wnwidth_to_wlwidth',
           lambda c: (lambda n: dict(wngrid=c.array('g', (n,)), wnwidth=c.array('w', (n,))))(c.int('n')),
           pre=lambda c, v: {'n': c.And(c.Len(v.wngrid) >= 0, c.Len(v.wnwidth) == c.Len(v.wngrid)),
                             'pos': c.Forall(0, c.Len(v.wngrid), lambda i: c.Lt(0, v.wngrid[i]))},
           post=lambda c, v0, v1, r: {'len': c.Len(r) == c.Len(v0.wngrid),
                                      'first_order': c.Forall(0, c.Len(r), lambda i: c.Eq(r[i], 10000 * v0.wnwidth[i] / (v0.wngrid[i] * v0.wngrid[i])))},
           native=lambda c, p: (__import__('taurex.util.util', fromlist=['x']).wnwidth_to_wlwidth(
               __import__('numpy').array(p['wngrid'], dtype=float), __import__('numpy').array(p['wnwidth'], dtype=float)), p),
           gen=lambda rng: (lambda n: dict(n=n, g=[rng.uniform(100, 5000) for _ in range(n)], w=[rng.uniform(1, 50) for _ in range(n)]))(rng.randint(1, 5)),
           result=lambda ex, st, v0: st.alloc(ex.c, ex.c.fresh_array('wlw', (ex.c.Len(v0.wngrid),))),
           bounds=[dict(n=2)], short='wnwidth_to_wlwidth', doc='width conversion at the bin centre: 10000 dnu / nu^2')


# ------------------------------------------------------------------ FluxBinner.__init__
FB = 'taurex.binning.fluxbinner:FluxBinner.'


def _fbi_params(c):
    n = c.int('n')
    given = c.choice('widths_given')
    return dict(self=ObjSpec('FluxBinner', _wngrid=None, _wngrid_width=None), wngrid=c.array('g', (n,)),
                wngrid_width=c.array('w', (n,)) if given else None)


def fbi_post(c, v0, v1, r):
    """the stored grid is an ascending arrangement of the input and every stored width is the width that was given
    for that same point (widths and centres are re-sorted TOGETHER)"""
    s = v1.self
    n = c.Len(v0.wngrid)
    G, Wd = s._wngrid, s._wngrid_width
    if G is None or Wd is None:
        return {'stored': False}
    d = {'lengths': c.And(c.Len(G) == n, c.Len(Wd) == n),
         'ascending': c.ForallAdj(0, n - 1, lambda i, j: c.Le(G[i], G[j]))}
    if c.mode == 'conc':
        import numpy as np
        p = np.argsort(np.array(v0.wngrid), kind='stable')
        d['arrangement'] = bool(np.allclose(np.array(G), np.array(v0.wngrid)[p]))
        if v0.wngrid_width is not None and len(set(v0.wngrid)) == len(v0.wngrid):
            d['widths_follow'] = bool(np.allclose(np.array(Wd), np.array(v0.wngrid_width)[p]))
        return d
    if v0.wngrid_width is not None:
        # every stored (centre, width) pair is an input pair, and every input pair is stored
        d['pairs_kept'] = c.Forall(0, n, lambda i: c.Exists(0, n, lambda j: c.And(G[i] == v0.wngrid[j], Wd[i] == v0.wngrid_width[j])))
        d['pairs_all'] = c.Forall(0, n, lambda j: c.Exists(0, n, lambda i: c.And(G[i] == v0.wngrid[j], Wd[i] == v0.wngrid_width[j])))
    else:
        d['arrangement'] = c.Forall(0, n, lambda i: c.Exists(0, n, lambda j: G[i] == v0.wngrid[j]))
    return d


def _fbi_native(c, p):
    import numpy as np
    from taurex.binning.fluxbinner import FluxBinner
    w = None if p['wngrid_width'] is None else np.array(p['wngrid_width'], dtype=float)
    o = FluxBinner(np.array(p['wngrid'], dtype=float), w)
    return None, dict(p, self=dict(p['self'], _wngrid=o._wngrid, _wngrid_width=o._wngrid_width))


def _fbi_gen(rng):
    n = rng.randint(2, 6)
    g = [rng.uniform(100, 5000) for _ in range(n)]
    return dict(n=n, g=g, w=[rng.uniform(1, 40) for _ in range(n)], widths_given=rng.random() < 0.6)


FBI = Unit(['C05', 'C17'], FB + '__init__', _fbi_params,
           pre=lambda c, v: {'n': c.Len(v.wngrid) >= 2}, post=fbi_post, native=_fbi_native, gen=_fbi_gen,
           cases=[{'widths_given': True}, {'widths_given': False}], bounds=[dict(n=2), dict(n=3)],
           abstract={'call:__init__': lambda ex, st, args, kwargs, node: None},
           frame_attrs=[('self', '_wngrid'), ('self', '_wngrid_width')], short='FluxBinner.__init__',
           doc='argsort assumed to return a sorting permutation (no stability assumed); Binner.__init__ abstract')


# ------------------------------------------------------------------ NativeBinner.bindown
NB = Unit('C05', 'taurex.binning.nativebinner:NativeBinner.bindown',
          lambda c: (lambda n: dict(self=ObjSpec('NativeBinner'), wngrid=c.array('g', (n,)), spectrum=c.array('f', (n,)),
                                    grid_width=c.array('w', (n,)), error=c.array('e', (n,))))(c.int('n')),
          post=lambda c, v0, v1, r: {'unchanged': c.And(
              c.Forall(0, c.Len(v0.wngrid), lambda i: c.And(c.Eq(r[0][i], v0.wngrid[i]), c.Eq(r[1][i], v0.spectrum[i]),
                                                            c.Eq(r[2][i], v0.error[i]), c.Eq(r[3][i], v0.grid_width[i]))),
              c.Len(r[0]) == c.Len(v0.wngrid), c.Len(r[1]) == c.Len(v0.spectrum))},
          native=lambda c, p: (__import__('taurex.binning.nativebinner', fromlist=['x']).NativeBinner().bindown(
              p['wngrid'], p['spectrum'], p['grid_width'], p['error']), p),
          gen=lambda rng: dict(n=3, g=[1.0, 2.0, 3.0], f=[rng.random() for _ in range(3)], w=[1.0] * 3, e=[0.1] * 3),
          bounds=[dict(n=2)], short='NativeBinner.bindown', doc='returns its input unchanged, in the documented order')


# ------------------------------------------------------------------ lemmas
def _window(c):
    """FluxBinner window lemma: native bins ordered and non-overlapping (hi_j <= lo_{j+1}); for a target bin [a,b]
    every native bin wholly left of a or wholly right of b has non-positive overlap min(b,hi)-max(a,lo)"""
    a, b, lo, hi = z3.Reals('a b lo hi')
    ov = z3.If(b <= hi, b, hi) - z3.If(a >= lo, a, lo)
    return [('left_of_window', [a <= b, lo <= hi, hi <= a], ov <= 0),
            ('right_of_window', [a <= b, lo <= hi, b <= lo], ov <= 0),
            ('inside_nonneg', [a <= b, lo <= hi, a <= hi, lo <= b], ov >= 0),
            ('bounded_by_bin', [a <= b, lo <= hi], z3.And(ov <= b - a, ov <= hi - lo))]


Lemma('C05', 'overlap_window', _window, doc='bins outside the searchsorted window cannot overlap the target bin')


def _linear(c):
    """the overlap-weighted mean is linear in the spectrum and preserves constants (induction over native bins)"""
    I, R = z3.IntSort(), z3.RealSort()
    w, f, g = z3.Function('w', I, R), z3.Function('f', I, R), z3.Function('g', I, R)
    al, be, k0 = z3.Reals('al be k0')
    m = z3.Int('m')
    Sw = lambda n: c.Sum(0, n, lambda j: w(j))
    S = lambda n, h: c.Sum(0, n, lambda j: w(j) * h(j))
    comb = lambda j: al * f(j) + be * g(j)
    return [('linear.base', [], S(0, comb) == al * S(0, f) + be * S(0, g)),
            ('linear.step', [m >= 0, S(m, comb) == al * S(m, f) + be * S(m, g)],
             c.hint(S(m + 1, comb) == al * S(m + 1, f) + be * S(m + 1, g), S(m + 1, comb) == S(m, comb) + w(m) * comb(m),
                    z3.And(S(m + 1, f) == S(m, f) + w(m) * f(m), S(m + 1, g) == S(m, g) + w(m) * g(m)),
                    w(m) * comb(m) == al * (w(m) * f(m)) + be * (w(m) * g(m)), final_uses=3)),
            ('constant.base', [], c.Sum(0, 0, lambda j: w(j) * k0) == k0 * Sw(0)),
            ('constant.step', [m >= 0, c.Sum(0, m, lambda j: w(j) * k0) == k0 * Sw(m)],
             c.Sum(0, m + 1, lambda j: w(j) * k0) == k0 * Sw(m + 1))]


Lemma('C05', 'weighted_mean_linear_and_constant_preserving', _linear, doc='sum_j w_j (a f_j + b g_j) = a sum w f + b sum w g; sum w k = k sum w')


# ------------------------------------------------------------------ bounded stand-ins (never counted as proved)
def _oracle(nat_c, nat_w, f, tgt_c, tgt_w, err=None):
    """brute-force overlap-weighted mean over ALL native bins (no window, no sorting)"""
    import numpy as np
    out = np.full(f.shape[:-1] + (len(tgt_c),), np.nan)
    eout = np.full(out.shape, np.nan)
    lo, hi = nat_c - nat_w / 2, nat_c + nat_w / 2
    for i, (cc, ww) in enumerate(zip(tgt_c, tgt_w)):
        a, b = cc - ww / 2, cc + ww / 2
        ov = np.maximum(0.0, np.minimum(b, hi) - np.maximum(a, lo))
        if ov.sum() > 0:
            out[..., i] = (f * ov).sum(axis=-1) / ov.sum()
            if err is not None:
                eout[..., i] = np.sqrt(((err * ov) ** 2).sum(axis=-1)) / ov.sum()
    return out, eout


def _b_flux(seed, tier):
    """FluxBinner.bindown against the brute-force oracle: sorted and shuffled native order, shuffled target order,
    explicit widths, gaps, bins wider/narrower than native bins, bins outside the native range, 1-D and 2-D"""
    import random
    import numpy as np
    from taurex.binning.fluxbinner import FluxBinner
    rng = random.Random(seed)
    N = 40 if tier == 'quick' else 2000
    fails, samples, cases = [], [], 0
    for it in range(N):
        n = rng.randint(3, 40)
        kind = rng.choice(['linear', 'log', 'gaps'])
        if kind == 'linear':
            nat = np.linspace(500, 500 + 10 * n, n)
        elif kind == 'log':
            nat = np.logspace(2.5, 3.5, n)
        else:
            nat = np.cumsum([rng.uniform(5, 30) for _ in range(n)]) + 300
        explicit = rng.random() < 0.5
        if explicit:
            gap = np.diff(nat)
            half = np.concatenate([[gap[0]], np.minimum(gap[:-1], gap[1:]), [gap[-1]]])
            natw = half * np.array([rng.uniform(0.3, 1.0) for _ in range(n)])      # non-overlapping, possibly with gaps
        else:
            natw = None
        m = rng.randint(1, 8)
        tc = np.array(sorted(rng.uniform(nat[0] - 50, nat[-1] + 50) for _ in range(m)))
        tw = np.array([rng.uniform(2, 120) for _ in range(m)])
        two_d = rng.random() < 0.3
        f = np.array([[rng.uniform(0, 1) for _ in range(n)] for _ in range(2)]) if two_d else np.array([rng.uniform(0, 1) for _ in range(n)])
        use_err = rng.random() < 0.5
        e = np.array(f) * 0.1 + 0.01 if use_err else None
        shuffle_native, shuffle_target = rng.random() < 0.5, rng.random() < 0.5
        p = np.array(rng.sample(range(n), n)) if shuffle_native else np.arange(n)
        q = np.array(rng.sample(range(m), m)) if shuffle_target else np.arange(m)
        inp = dict(kind=kind, n=n, m=m, explicit_widths=explicit, two_d=two_d, error=use_err, shuffled_native=shuffle_native,
                   shuffled_target=shuffle_target, seed=seed, case=it)
        cases += 1
        from taurex.util.util import compute_bin_edges
        w_used = natw if natw is not None else compute_bin_edges(nat)[-1]
        want, ewant = _oracle(nat, w_used, f, tc, tw, e)
        try:
            b = FluxBinner(tc[q], tw[q])
            gw = None if natw is None else natw[p]
            res = b.bindown(nat[p], f[..., p], grid_width=gw, error=None if e is None else e[..., p])
        except Exception as ex_:
            fails.append(dict(clause='fluxbinner.raises', inputs=inp, got=repr(ex_)[:200]))
            continue
        # history: the same binner applied to a second native grid of the same length (no explicit widths)
        if natw is None and not two_d:
            nat2 = np.linspace(nat[0] + rng.uniform(-20, 20), nat[-1] * rng.uniform(0.6, 1.4), n)   # evenly spaced: bins ordered, non-overlapping
            f2 = np.array([rng.uniform(0, 1) for _ in range(n)])
            want2, _ = _oracle(nat2, compute_bin_edges(nat2)[-1], f2, tc, tw)
            try:
                got2 = np.asarray(b.bindown(nat2, f2)[1], dtype=float)
                m2 = ~np.isnan(want2)
                cases += 1
                if not np.allclose(got2[m2], want2[m2], rtol=1e-9, atol=1e-12):
                    fails.append(dict(clause='fluxbinner.second_call_same_binner', inputs=inp,
                                      got=float(np.nanmax(np.abs(got2[m2] - want2[m2])))))
            except Exception as ex_:
                fails.append(dict(clause='fluxbinner.raises', inputs=inp, got=repr(ex_)[:200]))
        grid, got, egot, wid = res
        ok = np.allclose(grid, tc) and np.allclose(wid, tw)
        mask = ~np.isnan(want)
        if not ok:
            fails.append(dict(clause='fluxbinner.grid_and_widths', inputs=inp))
        elif not np.allclose(np.asarray(got)[mask], want[mask], rtol=1e-9, atol=1e-12):
            fails.append(dict(clause='fluxbinner.overlap_weighted_mean', inputs=inp,
                              got=float(np.nanmax(np.abs(np.asarray(got)[mask] - want[mask])))))
        elif e is not None and (egot is None or not np.allclose(np.asarray(egot)[mask], ewant[mask], rtol=1e-9, atol=1e-12)):
            fails.append(dict(clause='fluxbinner.error_in_quadrature', inputs=inp))
        if it < 2:
            samples.append(inp)
    return {'cases': cases, 'failures': fails, 'samples': samples,
            'bound': '%d random (native grid, target grid) pairs: 3..40 native bins, 1..8 target bins' % N}


Bounded('C05', 'fluxbinner_vs_overlap_oracle', _b_flux,
        doc='FluxBinner.bindown (searchsorted windows over slices, `...` indexing) is outside the verified subset')


def _b_simple(seed, tier):
    """fast histogram binner = plain mean of the native points between bin mid-points"""
    import random
    import numpy as np
    from taurex.binning.simplebinner import SimpleBinner
    rng = random.Random(seed)
    N = 40 if tier == 'quick' else 2000
    fails, samples = [], []
    for it in range(N):
        n, m = rng.randint(5, 60), rng.randint(2, 8)
        nat = np.sort(np.array([rng.uniform(100, 1000) for _ in range(n)]))
        tc = np.sort(np.array([rng.uniform(300, 800) for _ in range(m)]))          # native points beyond both outer edges
        f = np.array([rng.uniform(0, 1) for _ in range(n)])
        edges = np.concatenate([[tc[0] - (tc[1] - tc[0]) / 2], (tc[1:] + tc[:-1]) / 2, [tc[-1] + (tc[-1] - tc[-2]) / 2]])
        want = np.full(m, np.nan)
        for i in range(m):
            sel = (nat >= edges[i]) & (nat < edges[i + 1]) if i < m - 1 else (nat >= edges[i]) & (nat <= edges[i + 1])
            if sel.any():
                want[i] = f[sel].mean()
        inp = dict(n=n, m=m, seed=seed, case=it)
        try:
            got = np.asarray(SimpleBinner(tc).bindown(nat, f)[1], dtype=float)
            got2 = np.asarray(SimpleBinner(tc).bindown(nat, np.vstack([f, 2 * f]))[1], dtype=float)
        except Exception as ex_:
            fails.append(dict(clause='simplebinner.raises', inputs=inp, got=repr(ex_)[:200]))
            continue
        mask = ~np.isnan(want)
        if not np.allclose(got[mask], want[mask], rtol=1e-9):
            fails.append(dict(clause='simplebinner.plain_mean', inputs=inp))
        else:
            # 2-D input: each row binned like the 1-D case, except for native points exactly on an interior edge
            # (the two code paths close the bins on different sides)
            on_edge = np.isin(nat, edges).any()
            if not on_edge and (got2.shape != (2, m) or not np.allclose(got2[0][mask], want[mask], rtol=1e-9)
                                or not np.allclose(got2[1][mask], 2 * want[mask], rtol=1e-9)):
                fails.append(dict(clause='simplebinner.rows_of_2d_input', inputs=inp))
        if it < 2:
            samples.append(inp)
    return {'cases': N, 'failures': fails, 'samples': samples, 'bound': '%d random grids (1-D)' % N}


Bounded('C05', 'simplebinner_plain_mean', _b_simple, doc='np.histogram / np.digitize based: outside the verified subset')
